import KojenVerif.Lemmas.Preserv
/-
  Single-file regeneration: what `collect` + `emplace` + output filter do to a document
  that was generated from `F₀`, edited by the user, and regenerated from a (possibly
  different) fresh expansion `F₁`.
-/
namespace KojenVerif
section
variable {L K : Type} [DecidableEq K]

theorem render_map (f : L → L) (D : List (Item L)) :
    (render D).map f = render (D.map (Item.mapLines f)) := by
  induction D with
  | nil => simp [render]
  | cons it D ih =>
    cases it <;> simp [render, Item.render, Item.mapLines, ih]

theorem Tags.get?_map_body (t : Tags L K) (B : K → List L) (k : K) :
    Tags.get? (t.map (fun kb => (kb.1, B kb.1))) k = if k ∈ Tags.keys t then some (B k) else none := by
  induction t with
  | nil => simp [Tags.get?, Tags.keys]
  | cons p t ih =>
    obtain ⟨k0, b0⟩ := p
    by_cases h : k0 = k
    · subst h; simp [Tags.get?, Tags.keys]
    · have h' : ¬ k = k0 := fun e => h e.symm
      simp only [Tags.keys] at ih
      simp only [List.map_cons, Tags.get?, h, if_false, ih, Tags.keys, List.mem_cons, h', false_or]
      by_cases hm : k ∈ List.map (fun x => x.fst) t <;> simp [hm]

omit [DecidableEq K] in
theorem Tags.keys_map_body (t : Tags L K) (B : K → List L) :
    Tags.keys (t.map (fun kb => (kb.1, B kb.1))) = Tags.keys t := by
  simp [Tags.keys, List.map_map, Function.comp_def]

variable (c : Cfg L K) (norm : L → L)

/-- the blocks found on disk are those of `F`, each with the user's body -/
theorem blocksOf_onDisk (B : K → List L) (F : List (Item L))
    (h : ∀ it ∈ F, it.freshOK c norm) :
    blocksOf c (onDisk c norm B F) = (blocksOf c F).map (fun kb => (kb.1, B kb.1)) := by
  induction F with
  | nil => simp [onDisk, blocksOf]
  | cons it F ih =>
    have hF : ∀ it ∈ F, it.freshOK c norm := fun x hx => h x (by simp [hx])
    have hit := h it (by simp)
    simp only [onDisk] at ih
    cases it with
    | text l => simp [onDisk, Item.edit, blocksOf, ih hF]
    | block o cl b =>
      simp only [Item.freshOK] at hit
      obtain ⟨_, _, _, _, hno, _⟩ := hit
      simp [onDisk, Item.edit, blocksOf, ih hF, hno]

theorem okOld_onDisk (hn : NormOK c norm) (B : K → List L) (hB : UserOK c B)
    (F : List (Item L)) (h : ∀ it ∈ F, it.freshOK c norm) :
    ∀ it ∈ onDisk c norm B F, it.okOld c := by
  induction F with
  | nil => simp [onDisk]
  | cons it F ih =>
    have hF : ∀ it ∈ F, it.freshOK c norm := fun x hx => h x (by simp [hx])
    have hit := h it (by simp)
    intro x hx
    simp only [onDisk, List.map_cons, List.mem_cons] at hx
    rcases hx with hx | hx
    · subst hx
      cases it with
      | text l =>
        simp only [Item.freshOK] at hit
        simp [Item.edit, Item.okOld, hn.tag, hit]
      | block o cl b =>
        simp only [Item.freshOK] at hit
        obtain ⟨_, ho, hcl, _, _, _⟩ := hit
        simp only [Item.edit, Item.okOld, hn.tag, ho, hcl, true_and]
        exact hB _
    · exact ih hF x (by simpa [onDisk] using hx)

/-- the table collected from disk answers `B k` exactly on the tag keys of `F` -/
theorem collect_onDisk_get? (hn : NormOK c norm) (B : K → List L) (hB : UserOK c B)
    (F : List (Item L)) (hF : FreshDoc c norm F) (k : K) :
    Tags.get? (collect c (render (onDisk c norm B F))) k
      = if k ∈ blockKeys c F then some (B k) else none := by
  have hb := blocksOf_onDisk c norm B F hF.items
  have hnd : (Tags.keys (blocksOf c (onDisk c norm B F))).Nodup := by
    rw [hb, Tags.keys_map_body]; exact hF.nodup
  rw [collect_get? c _ (okOld_onDisk c norm hn B hB F hF.items) hnd k, hb, Tags.get?_map_body]
  rfl

/-- a fresh document is an admissible emplace target for *any* table -/
theorem okNew_fresh (t : Tags L K) (F : List (Item L))
    (h : ∀ it ∈ F, it.freshOK c norm) : ∀ it ∈ F, it.okNew c t := by
  intro it hit
  have := h it hit
  cases it with
  | text l =>
    simp only [Item.freshOK] at this
    exact Cfg.lookup_of_not_tag c t l this
  | block o cl b =>
    simp only [Item.freshOK] at this
    obtain ⟨hb, ho, hcl, hk, _, _⟩ := this
    subst hb
    simp [Item.okNew, hk, ho, hcl]

theorem mem_blockKeys_of_mem (F : List (Item L)) (o cl : L) (b : List L)
    (h : Item.block o cl b ∈ F) : c.key o ∈ blockKeys c F := by
  induction F with
  | nil => cases h
  | cons it F ih =>
    simp only [List.mem_cons] at h
    rcases h with h | h
    · subst h; simp [blockKeys, blocksOf, Tags.keys]
    · have := ih h
      cases it <;> simp_all [blockKeys, blocksOf, Tags.keys]

/-- bodies that survive a change of model: only keys the old file had -/
def carry (c : Cfg L K) (norm : L → L) (B : K → List L) (F₀ : List (Item L)) : K → List L :=
  fun k => if k ∈ blockKeys c F₀ then (B k).map norm else []

theorem fill_fresh_two (t : Tags L K) (B : K → List L) (ks : List K) (F : List (Item L))
    (ht : ∀ k, Tags.get? t k = if k ∈ ks then some (B k) else none)
    (h : ∀ it ∈ F, it.freshOK c norm) :
    F.map (Item.fill c t) = F.map (Item.setBody c (fun k => if k ∈ ks then B k else [])) := by
  induction F with
  | nil => simp
  | cons it F ih =>
    have hF : ∀ it ∈ F, it.freshOK c norm := fun x hx => h x (by simp [hx])
    have hit := h it (by simp)
    cases it with
    | text l => simp [Item.fill, Item.setBody, ih hF]
    | block o cl b =>
      simp only [Item.freshOK] at hit
      obtain ⟨hb, _⟩ := hit
      subst hb
      by_cases hk : c.key o ∈ ks
      · simp [Item.fill, Item.setBody, ht, hk, ih hF]
      · simp [Item.fill, Item.setBody, ht, hk, ih hF]

/-- **Model-evolution lemma.** Old file generated from `F₀` with user bodies `B`, new
    expansion `F₁` (no relation between the two models assumed): the regenerated file is
    the fresh `F₁` with, under every tag that both have, the old body. -/
theorem regen_two (hn : NormOK c norm) (B : K → List L) (hB : UserOK c B)
    (F₀ F₁ : List (Item L)) (hF₀ : FreshDoc c norm F₀) (hF₁ : FreshDoc c norm F₁) :
    regenLines c norm (render F₁) (render (onDisk c norm B F₀))
      = render (onDisk c norm (carry c norm B F₀) F₁) := by
  have hget := collect_onDisk_get? c norm hn B hB F₀ hF₀
  have hnew := okNew_fresh c norm (collect c (render (onDisk c norm B F₀))) F₁ hF₁.items
  have hfill := fill_fresh_two c norm (collect c (render (onDisk c norm B F₀))) B (blockKeys c F₀)
    F₁ hget hF₁.items
  unfold regenLines
  rw [emplace_render c _ F₁ hnew, hfill, render_map]
  congr 1
  unfold onDisk
  simp only [List.map_map]
  apply List.map_congr_left
  intro it hit
  have := hF₁.items it hit
  cases it with
  | text l => simp [Item.setBody, Item.mapLines, Item.edit]
  | block o cl b =>
    simp only [Item.freshOK] at this
    obtain ⟨_, _, _, _, hno, _⟩ := this
    by_cases hk : c.key o ∈ blockKeys c F₀
    · simp [Item.setBody, Item.mapLines, Item.edit, hno, carry, hk]
    · simp [Item.setBody, Item.mapLines, Item.edit, hno, carry, hk]

theorem onDisk_congr (B B' : K → List L) (F : List (Item L))
    (hF : ∀ it ∈ F, it.freshOK c norm)
    (h : ∀ k ∈ blockKeys c F, B k = B' k) :
    onDisk c norm B F = onDisk c norm B' F := by
  unfold onDisk
  apply List.map_congr_left
  intro it hit
  have := hF it hit
  cases it with
  | text l => simp [Item.edit]
  | block o cl b =>
    simp only [Item.freshOK] at this
    obtain ⟨_, _, _, _, hno, _⟩ := this
    simp only [Item.edit, hno]
    rw [h _ (mem_blockKeys_of_mem c F o cl b hit)]

theorem map_norm_onDisk (hn : NormOK c norm) (B : K → List L) (F : List (Item L)) :
    (render (onDisk c norm B F)).map norm = render (onDisk c norm (fun k => (B k).map norm) F) := by
  rw [render_map]
  congr 1
  unfold onDisk
  simp only [List.map_map]
  apply List.map_congr_left
  intro it _
  cases it <;> simp [Item.edit, Item.mapLines, hn.idem]

/-- **Regeneration lemma** (same model): the edited file, each line through the output filter. -/
theorem regen_onDisk (hn : NormOK c norm) (B : K → List L) (hB : UserOK c B)
    (F : List (Item L)) (hF : FreshDoc c norm F) :
    regenLines c norm (render F) (render (onDisk c norm B F))
      = (render (onDisk c norm B F)).map norm := by
  rw [regen_two c norm hn B hB F F hF hF, map_norm_onDisk c norm hn]
  congr 1
  apply onDisk_congr c norm _ _ F hF.items
  intro k hk
  simp [carry, hk]

theorem blockKeys_onDisk (B : K → List L) (F : List (Item L))
    (hF : ∀ it ∈ F, it.freshOK c norm) :
    blockKeys c (onDisk c norm B F) = blockKeys c F := by
  unfold blockKeys
  rw [blocksOf_onDisk c norm B F hF, Tags.keys_map_body]

end
end KojenVerif
