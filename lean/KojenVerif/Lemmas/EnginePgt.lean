import KojenVerif.Lemmas.EngineRemoveDefault
import KojenVerif.Lemmas.EngineInner
import KojenVerif.Lemmas.EngineEdt
/-
  The per-guard-transition line filter (`pgtLine`) on token lines: present transition tags are
  substituted, a line that still mentions an absent one is dropped, or replaced by the
  alternative text of its single tag.
-/
namespace KojenVerif
namespace Engine
open Str

/-! ### literal runs -/

/-- adjacent literals merged into one run -/
def merge : Spec.SLine → Spec.SLine
  | [] => []
  | .lit a :: r =>
    match merge r with
    | .lit b :: r' => .lit (a ++ b) :: r'
    | r' => .lit a :: r'
  | .tag n d :: r => .tag n d :: merge r

theorem renderSegs_merge (l : Spec.SLine) : renderSegs (merge l) = renderSegs l := by
  induction l with
  | nil => rfl
  | cons s r ih =>
    cases s with
    | tag n d => simp only [merge, renderSegs, List.map_cons, List.flatten_cons] at ih ⊢; rw [ih]
    | lit a =>
      simp only [merge]
      cases hm : merge r with
      | nil => rw [hm] at ih; simp [renderSegs] at ih ⊢; exact ih
      | cons b r' =>
        rw [hm] at ih
        cases b with
        | lit b => simp [renderSegs, Spec.Seg.render] at ih ⊢; exact ih
        | tag n d => simp [renderSegs] at ih ⊢; exact ih

theorem renderLine_merge (l : Spec.SLine) : Spec.renderLine (merge l) = Spec.renderLine l := by
  rw [renderLine_eq, renderLine_eq, renderSegs_merge]

theorem sep_merge (l : Spec.SLine) : Sep (merge l) := by
  induction l with
  | nil => trivial
  | cons s r ih =>
    cases s with
    | tag n d =>
      simp only [merge]
      cases hm : merge r with
      | nil => trivial
      | cons b r' => rw [hm] at ih; simpa [Sep] using ih
    | lit a =>
      simp only [merge]
      cases hm : merge r with
      | nil => trivial
      | cons b r' =>
        rw [hm] at ih
        cases b with
        | tag n d => simpa [Sep] using ih
        | lit b =>
          cases r' with
          | nil => trivial
          | cons c r'' =>
            cases c with
            | lit c => exact absurd ih (by simp [Sep])
            | tag n d => simpa [Sep] using ih.tail

/-- **`kw in line`** for any rendered line, by its literal runs and tags -/
theorem contains_renderLine' (kw : Str) (h : KwOK kw) (l : Spec.SLine) :
    contains kw (Spec.renderLine l) = (merge l).any (segHas kw) := by
  rw [← renderLine_merge, contains_renderLine kw h (merge l) (sep_merge l)]

/-- the tags of a line, untouched by merging -/
def tagsOf (l : Spec.SLine) : List (Str × Option Str) :=
  l.filterMap (fun s => match s with | .tag n d => some (n, d) | .lit _ => none)

theorem tagsOf_merge (l : Spec.SLine) : tagsOf (merge l) = tagsOf l := by
  induction l with
  | nil => rfl
  | cons s r ih =>
    cases s with
    | tag n d => simp only [merge, tagsOf, List.filterMap_cons] at ih ⊢; rw [ih]
    | lit a =>
      simp only [merge]
      cases hm : merge r with
      | nil => rw [hm] at ih; simp [tagsOf] at ih ⊢; exact ih
      | cons b r' =>
        rw [hm] at ih
        cases b with
        | lit b => simp [tagsOf] at ih ⊢; exact ih
        | tag n d => simp [tagsOf] at ih ⊢; exact ih

/-! ### `find` of a whole tag -/

theorem replaceAux_len_le (pat : Str) (k : Nat) (s : Str) : (replaceAux pat [] k s).length ≤ s.length := by
  induction s generalizing k with
  | nil => simp [replaceAux]
  | cons c cs ih =>
    cases k with
    | succ k => simp only [replaceAux]; have := ih k; simp; omega
    | zero =>
      simp only [replaceAux]
      split
      · have := ih (pat.length - 1); simp; omega
      · have := ih 0; simp; omega

theorem replaceAux_shrinks (pat : Str) (s : Str) (h : contains pat s = true) (hne : pat ≠ []) :
    (replaceAux pat [] 0 s).length < s.length := by
  induction s with
  | nil => cases pat <;> simp_all [contains]
  | cons c cs ih =>
    simp only [replaceAux]
    split
    · have := replaceAux_len_le pat (pat.length - 1) cs; simp; omega
    · rename_i hp
      simp only [contains, hp, Bool.false_or] at h
      have := ih h; simp; omega

theorem find_none_of_not_contains (pat s : Str) (h : contains pat s = false) : find pat s = none := by
  induction s with
  | nil => simp only [contains] at h; simp [find, h]
  | cons c cs ih =>
    simp only [contains, Bool.or_eq_false_iff] at h
    simp [find, h.1, ih h.2]

/-- a tag that is no segment of the line is not found in its text -/
theorem find_tag_none (x : Str) (hx : Clean x) (l : Spec.SLine) (h : LineOK l)
    (hno : ∀ s ∈ l, segBody s ≠ some x) : find (tagPat x) (Spec.renderLine l) = none := by
  apply find_none_of_not_contains
  cases hc : contains (tagPat x) (Spec.renderLine l) with
  | false => rfl
  | true =>
    have hs := replaceAux_shrinks (tagPat x) (Spec.renderLine l) hc (tagPat_ne_nil x)
    have hr := pyReplace_tag_renderLine x [] hx l h
    unfold pyReplace at hr
    have hne : (tagPat x).isEmpty = false := by simp [tagPat, LLL]
    simp only [hne, Bool.false_eq_true, if_false] at hr
    have : (l.map (segReplaced x [])).flatten ++ [NL] = Spec.renderLine l := by
      rw [renderLine_eq]; unfold renderSegs; congr 2
      apply List.map_congr_left
      intro s hs; simp [segReplaced, hno s hs]
    rw [hr, this] at hs
    omega

end Engine
end KojenVerif
