import KojenVerif.Lemmas.EngineRemoveDefault
import KojenVerif.Lemmas.EngineInner
import KojenVerif.Lemmas.EngineEdt
/-
  The per-guard-transition line filter (`pgtLine`) on token lines: present transition tags are
  substituted, a line that still mentions an absent one is dropped, or replaced by the
  alternative text of its single tag.
-/
namespace KojenVerif
namespace Engine
open Str

/-! ### literal runs -/

/-- adjacent literals merged into one run -/
def merge : Spec.SLine → Spec.SLine
  | [] => []
  | .lit a :: r =>
    match merge r with
    | .lit b :: r' => .lit (a ++ b) :: r'
    | r' => .lit a :: r'
  | .tag n d :: r => .tag n d :: merge r

theorem renderSegs_merge (l : Spec.SLine) : renderSegs (merge l) = renderSegs l := by
  induction l with
  | nil => rfl
  | cons s r ih =>
    cases s with
    | tag n d => simp only [merge, renderSegs, List.map_cons, List.flatten_cons] at ih ⊢; rw [ih]
    | lit a =>
      simp only [merge]
      cases hm : merge r with
      | nil => rw [hm] at ih; simp [renderSegs] at ih ⊢; exact ih
      | cons b r' =>
        rw [hm] at ih
        cases b with
        | lit b => simp [renderSegs, Spec.Seg.render] at ih ⊢; exact ih
        | tag n d => simp [renderSegs] at ih ⊢; exact ih

theorem renderLine_merge (l : Spec.SLine) : Spec.renderLine (merge l) = Spec.renderLine l := by
  rw [renderLine_eq, renderLine_eq, renderSegs_merge]

theorem sep_merge (l : Spec.SLine) : Sep (merge l) := by
  induction l with
  | nil => trivial
  | cons s r ih =>
    cases s with
    | tag n d =>
      simp only [merge]
      cases hm : merge r with
      | nil => trivial
      | cons b r' => rw [hm] at ih; simpa [Sep] using ih
    | lit a =>
      simp only [merge]
      cases hm : merge r with
      | nil => trivial
      | cons b r' =>
        rw [hm] at ih
        cases b with
        | tag n d => simpa [Sep] using ih
        | lit b =>
          cases r' with
          | nil => trivial
          | cons c r'' =>
            cases c with
            | lit c => exact absurd ih (by simp [Sep])
            | tag n d => simpa [Sep] using ih.tail

/-- **`kw in line`** for any rendered line, by its literal runs and tags -/
theorem contains_renderLine' (kw : Str) (h : KwOK kw) (l : Spec.SLine) :
    contains kw (Spec.renderLine l) = (merge l).any (segHas kw) := by
  rw [← renderLine_merge, contains_renderLine kw h (merge l) (sep_merge l)]

/-- the tags of a line, untouched by merging -/
def tagsOf (l : Spec.SLine) : List (Str × Option Str) :=
  l.filterMap (fun s => match s with | .tag n d => some (n, d) | .lit _ => none)

theorem tagsOf_merge (l : Spec.SLine) : tagsOf (merge l) = tagsOf l := by
  induction l with
  | nil => rfl
  | cons s r ih =>
    cases s with
    | tag n d => simp only [merge, tagsOf, List.filterMap_cons] at ih ⊢; rw [ih]
    | lit a =>
      simp only [merge]
      cases hm : merge r with
      | nil => rw [hm] at ih; simp [tagsOf] at ih ⊢; exact ih
      | cons b r' =>
        rw [hm] at ih
        cases b with
        | lit b => simp [tagsOf] at ih ⊢; exact ih
        | tag n d => simp [tagsOf] at ih ⊢; exact ih

/-! ### `find` of a whole tag -/

theorem replaceAux_len_le (pat : Str) (k : Nat) (s : Str) : (replaceAux pat [] k s).length ≤ s.length := by
  induction s generalizing k with
  | nil => simp [replaceAux]
  | cons c cs ih =>
    cases k with
    | succ k => simp only [replaceAux]; have := ih k; simp; omega
    | zero =>
      simp only [replaceAux]
      split
      · have := ih (pat.length - 1); simp; omega
      · have := ih 0; simp; omega

theorem replaceAux_shrinks (pat : Str) (s : Str) (h : contains pat s = true) (hne : pat ≠ []) :
    (replaceAux pat [] 0 s).length < s.length := by
  induction s with
  | nil => cases pat <;> simp_all [contains]
  | cons c cs ih =>
    simp only [replaceAux]
    split
    · have := replaceAux_len_le pat (pat.length - 1) cs; simp; omega
    · rename_i hp
      simp only [contains, hp, Bool.false_or] at h
      have := ih h; simp; omega

theorem find_none_of_not_contains (pat s : Str) (h : contains pat s = false) : find pat s = none := by
  induction s with
  | nil => simp only [contains] at h; simp [find, h]
  | cons c cs ih =>
    simp only [contains, Bool.or_eq_false_iff] at h
    simp [find, h.1, ih h.2]

/-- a tag that is no segment of the line is not found in its text -/
theorem find_tag_none (x : Str) (hx : Clean x) (l : Spec.SLine) (h : LineOK l)
    (hno : ∀ s ∈ l, segBody s ≠ some x) : find (tagPat x) (Spec.renderLine l) = none := by
  apply find_none_of_not_contains
  cases hc : contains (tagPat x) (Spec.renderLine l) with
  | false => rfl
  | true =>
    have hs := replaceAux_shrinks (tagPat x) (Spec.renderLine l) hc (tagPat_ne_nil x)
    have hr := pyReplace_tag_renderLine x [] hx l h
    unfold pyReplace at hr
    have hne : (tagPat x).isEmpty = false := by simp [tagPat, LLL]
    simp only [hne, Bool.false_eq_true, if_false] at hr
    have : (l.map (segReplaced x [])).flatten ++ [NL] = Spec.renderLine l := by
      rw [renderLine_eq]; unfold renderSegs; congr 2
      apply List.map_congr_left
      intro s hs; simp [segReplaced, hno s hs]
    rw [hr, this] at hs
    omega

/-! ### the fifteen transition keywords -/

def names15 : List Str := Spec.transTagNames

theorem kwOK_of (kw : Str) (h : 60 ∉ kw ∧ 62 ∉ kw ∧ 61 ∉ kw ∧ NL ∉ kw ∧ kw ≠ []) : KwOK kw :=
  ⟨h.1, h.2.1, h.2.2.1, h.2.2.2.1, h.2.2.2.2⟩

theorem names15_ok : ∀ kw ∈ names15, KwOK kw := by
  have : ∀ kw ∈ names15, (60 ∉ kw ∧ 62 ∉ kw ∧ 61 ∉ kw ∧ NL ∉ kw ∧ kw ≠ []) := by decide
  exact fun kw h => kwOK_of kw (this kw h)

theorem names15_clean : ∀ kw ∈ names15, Clean kw ∧ NoEq kw := by
  intro kw h
  have k := names15_ok kw h
  exact ⟨fun c hc => ⟨fun e => k.lt (e ▸ hc), fun e => k.gt (e ▸ hc)⟩, fun c hc e => k.eq (e ▸ hc)⟩

/-- no keyword is part of another one -/
theorem names15_sub : ∀ a ∈ names15, ∀ b ∈ names15, contains a b = (a == b) := by decide

/-- free of every transition keyword -/
def KwFree (s : Str) : Prop := ∀ kw ∈ names15, contains kw s = false

instance (s : Str) : Decidable (KwFree s) := by unfold KwFree; exact inferInstance

/-- the keyword discipline of a segment: literal runs and alternative texts mention no transition keyword,
    a tag name is a transition keyword or mentions none -/
def segKw : Spec.Seg → Prop
  | .lit t => KwFree t
  | .tag n none => n ∈ names15 ∨ KwFree n
  | .tag n (some a) => (n ∈ names15 ∨ KwFree n) ∧ KwFree a

instance : (s : Spec.Seg) → Decidable (segKw s)
  | .lit _ => by unfold segKw; exact inferInstance
  | .tag _ none => by unfold segKw; exact inferInstance
  | .tag _ (some _) => by unfold segKw; exact inferInstance

def isNamed (kw : Str) : Spec.Seg → Bool
  | .tag n _ => n == kw
  | .lit _ => false

theorem segHas_kw (kw : Str) (hk : kw ∈ names15) (s : Spec.Seg) (h : segKw s) : segHas kw s = isNamed kw s := by
  have name : ∀ n, (n ∈ names15 ∨ KwFree n) → contains kw n = (n == kw) := by
    intro n hn
    cases hn with
    | inl hm => rw [names15_sub kw hk n hm]; exact Bool.eq_iff_iff.mpr ⟨fun e => by simpa using (by simpa using e : kw = n).symm, fun e => by simpa using (by simpa using e : n = kw).symm⟩
    | inr hf =>
      rw [hf kw hk]
      cases hb : (n == kw) with
      | false => rfl
      | true =>
        have e : n = kw := by simpa using hb
        subst e
        have := hf n hk
        rw [names15_sub n hk n hk] at this
        simp at this
  cases s with
  | lit t => simp only [segHas, isNamed]; exact h kw hk
  | tag n d =>
    cases d with
    | none => simp only [segHas, isNamed]; exact name n h
    | some a =>
      simp only [segHas, isNamed]
      rw [name n h.1, h.2 kw hk, Bool.or_false]

/-- the line mentions the keyword iff one of its tags is named so -/
theorem contains_kw (kw : Str) (hk : kw ∈ names15) (l : Spec.SLine) (h : ∀ s ∈ merge l, segKw s) :
    contains kw (Spec.renderLine l) = (tagsOf l).any (fun p => p.1 == kw) := by
  rw [contains_renderLine' kw (names15_ok kw hk) l, ← tagsOf_merge]
  generalize merge l = m at h
  induction m with
  | nil => rfl
  | cons s m ih =>
    have hs := segHas_kw kw hk s (h s (by simp))
    have := ih (fun x hx => h x (by simp [hx]))
    simp only [List.any_cons, hs, this]
    cases s with
    | lit t => simp [isNamed, tagsOf]
    | tag n d => simp [isNamed, tagsOf]

/-! ### the substitution fold of `pgtLine` -/

/-- one step of the fold in `pgtLine`: strip the alternative if the key's keyword occurs, then replace -/
def pgtStep (l : Line) (kv : Str × Str) : Line :=
  pyReplace kv.1 kv.2 (if hasSpecificTag l kv.1 then removeDefault l else l)

/-- what `pgtLine` does with the substituted line -/
def pgtFinal (l : Line) : List Line :=
  if pgtKinds.any (hasSpecificTag l) then
    if hasDefault l then [List.replicate (l.length - (lstrip l).length) SP ++ (extractDefaultAndTag l).2 ++ NLs] else []
  else if pgtAbsent.all (fun t => (find t l).isNone) then [l]
  else []

theorem pgtLine_eq (d : List (Str × Str)) (l : Line) : pgtLine d l = pgtFinal (d.foldl pgtStep l) := rfl

/-- no tag of the line carries an alternative text -/
def NoDflt (l : Spec.SLine) : Prop := ∀ p ∈ tagsOf l, p.2 = none

instance (l : Spec.SLine) : Decidable (NoDflt l) := by unfold NoDflt; exact inferInstance

theorem mem_tagsOf {l : Spec.SLine} {n : Str} {d : Option Str} : (n, d) ∈ tagsOf l ↔ Spec.Seg.tag n d ∈ l := by
  unfold tagsOf
  rw [List.mem_filterMap]
  constructor
  · rintro ⟨s, hs, he⟩
    cases s with
    | lit t => cases he
    | tag n' d' => simp only [Option.some.injEq, Prod.mk.injEq] at he; obtain ⟨e1, e2⟩ := he; subst e1 e2; exact hs
  · intro h; exact ⟨_, h, rfl⟩

theorem dropLastDefault_nodflt (l : Spec.SLine) (h : NoDflt l) : dropLastDefault l = l := by
  unfold dropLastDefault
  change (match (tagsOf l).getLast? with
    | some (n, some d) => l.map (fun s => if s = .tag n (some d) then .tag n none else s)
    | _ => l) = l
  cases hl : (tagsOf l).getLast? with
  | none => rfl
  | some p =>
    obtain ⟨n, d⟩ := p
    have := h (n, d) (List.mem_of_getLast? hl)
    simp only at this
    subst this
    rfl

theorem tagsOf_substOne_sub (x v : Str) (l : Spec.SLine) : ∀ p ∈ tagsOf (substOne x v l), p ∈ tagsOf l := by
  intro p hp
  obtain ⟨n, d⟩ := p
  rw [mem_tagsOf] at hp ⊢
  simp only [substOne, List.mem_map] at hp
  obtain ⟨s, hs, he⟩ := hp
  cases s with
  | lit t => cases he
  | tag n' d' =>
    cases d' with
    | some d' => simp only at he; rw [← he]; exact hs
    | none =>
      by_cases hn : n' = x
      · simp [hn] at he
      · simp only [hn, if_false] at he; rw [← he]; exact hs

theorem substOne_names (x v : Str) (l : Spec.SLine) (hn : NamesOK l) : NamesOK (substOne x v l) := by
  intro s hs
  cases s with
  | lit t => trivial
  | tag n d =>
    have := tagsOf_substOne_sub x v l (n, d) (mem_tagsOf.mpr hs)
    exact hn _ (mem_tagsOf.mp this)

theorem substOne_nodflt (x v : Str) (l : Spec.SLine) (hd : NoDflt l) : NoDflt (substOne x v l) :=
  fun p hp => hd p (tagsOf_substOne_sub x v l p hp)

theorem pgtStep_nodflt (k v : Str) (hk : Clean k) (hke : NoEq k) (l : Spec.SLine) (h : LineOK l) (hn : NamesOK l)
    (hd : NoDflt l) : pgtStep (Spec.renderLine l) (tagPat k, v) = Spec.renderLine (substOne k v l) := by
  unfold pgtStep
  have : (if hasSpecificTag (Spec.renderLine l) (tagPat k, v).1 then removeDefault (Spec.renderLine l) else Spec.renderLine l)
      = Spec.renderLine l := by
    split
    · rw [removeDefault_renderLine l h hn, dropLastDefault_nodflt l hd]
    · rfl
  rw [this]
  exact pyReplace_renderLine k v hk hke l h

/-- **lines without alternatives**: the fold is the plain chain of replacements -/
theorem pgtFold_nodflt (d : List (Str × Str)) (hc : ChainOK d) (l : Spec.SLine) (h : LineOK l) (hn : NamesOK l)
    (hd : NoDflt l) : (toPat d).foldl pgtStep (Spec.renderLine l) = Spec.renderLine (substChain d l) := by
  induction d generalizing l with
  | nil => rfl
  | cons kv d ih =>
    have hk := hc.key kv (by simp)
    have hv := hc.val kv (by simp)
    have hc' : ChainOK d := ⟨fun x hx => hc.key x (by simp [hx]), fun x hx => hc.val x (by simp [hx])⟩
    simp only [toPat, List.map_cons, List.foldl_cons, substChain]
    rw [pgtStep_nodflt kv.1 kv.2 hk.1 hk.2 l h hn hd]
    exact ih hc' (substOne kv.1 kv.2 l) (substOne_ok kv.1 kv.2 hv l h) (substOne_names _ _ l hn) (substOne_nodflt _ _ l hd)

/-! ### a single tag with an alternative text -/

/-- every tag of the line replaced by the literal `v` -/
def setTag (l : Spec.SLine) (v : Str) : Spec.SLine :=
  l.map (fun s => match s with | .lit t => .lit t | .tag _ _ => .lit v)

theorem tagsOf_setTag (l : Spec.SLine) (v : Str) : tagsOf (setTag l v) = [] := by
  induction l with
  | nil => rfl
  | cons s l ih => cases s <;> simpa [setTag, tagsOf] using ih

theorem setTag_ok (l : Spec.SLine) (v : Str) (h : LineOK l) (hv : Clean v) : LineOK (setTag l v) := by
  intro s hs
  simp only [setTag, List.mem_map] at hs
  obtain ⟨s0, hs0, e⟩ := hs
  cases s0 with
  | lit t => subst e; exact h _ hs0
  | tag n d => subst e; exact hv

theorem substOne_tagless (x v : Str) (l : Spec.SLine) (h : tagsOf l = []) : substOne x v l = l := by
  unfold substOne
  conv => rhs; rw [← List.map_id l]
  apply List.map_congr_left
  intro s hs
  cases s with
  | lit t => rfl
  | tag n d => have := mem_tagsOf.mpr hs; rw [h] at this; cases this

theorem substChain_tagless (d : List (Str × Str)) (l : Spec.SLine) (h : tagsOf l = []) : substChain d l = l := by
  induction d with
  | nil => rfl
  | cons kv d ih => simp only [substChain, List.foldl_cons] at ih ⊢; rw [substOne_tagless _ _ l h]; exact ih

theorem nodflt_of_tagless (l : Spec.SLine) (h : tagsOf l = []) : NoDflt l := by
  intro p hp; rw [h] at hp; cases hp

theorem names_of_tagless (l : Spec.SLine) (h : tagsOf l = []) : NamesOK l := by
  intro s hs
  cases s with
  | lit t => trivial
  | tag n d => have := mem_tagsOf.mpr hs; rw [h] at this; cases this

theorem replaceAux_pass (c : Nat) (ps rep s rest : Str) (h : ∀ x ∈ s, x ≠ c) :
    replaceAux (c :: ps) rep 0 (s ++ rest) = s ++ replaceAux (c :: ps) rep 0 rest := by
  induction s with
  | nil => rfl
  | cons a s ih =>
    have ha : a ≠ c := h a (by simp)
    have hp : isPrefixB (c :: ps) (a :: (s ++ rest)) = false := by
      simp [isPrefixB]; intro e; exact absurd e.symm ha
    simp only [List.cons_append, replaceAux, hp, Bool.false_eq_true, if_false]
    rw [ih (fun x hx => h x (by simp [hx]))]

theorem cleanTag_tagPat (k : Str) (hk : Clean k) : cleanTag (tagPat k) = k := by
  unfold cleanTag pyReplace
  have e1 : LLL.isEmpty = false := rfl
  have e2 : GGG.isEmpty = false := rfl
  simp only [e1, e2, Bool.false_eq_true, if_false]
  have a : replaceAux LLL [] 0 (tagPat k) = k ++ GGG := by
    have : tagPat k = 60 :: 60 :: 60 :: ((k ++ GGG) ++ []) := by simp [tagPat, LLL]
    rw [this]
    have hp : isPrefixB LLL (60 :: 60 :: 60 :: ((k ++ GGG) ++ [])) = true := by simp [LLL, isPrefixB]
    rw [replaceAux]; simp only [hp, if_true]
    have hl : LLL.length - 1 = 2 := rfl
    rw [hl, replaceAux, replaceAux]
    have hL : LLL = 60 :: [60, 60] := rfl
    rw [hL, replaceAux_pass 60 [60, 60] [] (k ++ GGG) []]
    · simp [replaceAux]
    · intro x hx
      rcases List.mem_append.mp hx with h | h
      · exact (hk x h).1
      · simp [GGG] at h; omega
  rw [a]
  have hG : GGG = 62 :: [62, 62] := rfl
  rw [hG, replaceAux_pass 62 [62, 62] [] k _ (fun x hx => (hk x hx).2)]
  simp [replaceAux, isPrefixB]

theorem hasTag_renderLine (l : Spec.SLine) (h : LineOK l) : hasTag (Spec.renderLine l) = !(tagsOf l).isEmpty := by
  unfold hasTag
  rw [tagBodies_renderLine l h]
  congr 1
  induction l with
  | nil => rfl
  | cons s r ih =>
    cases s with
    | lit t =>
      have := ih (fun x hx => h x (by simp [hx]))
      simp only [List.filterMap_cons, segBody, tagsOf] at this ⊢
      exact this
    | tag n d => cases d <;> simp [segBody, tagsOf]

/-- `hasSpecificTag(line, '<<<k>>>')` for a transition keyword: some tag of the line is named `k` -/
theorem hasSpecificTag_kw (k : Str) (hk : k ∈ names15) (l : Spec.SLine) (h : LineOK l) (hkw : ∀ s ∈ merge l, segKw s) :
    hasSpecificTag (Spec.renderLine l) (tagPat k) = (tagsOf l).any (fun p => p.1 == k) := by
  unfold hasSpecificTag
  rw [cleanTag_tagPat k (names15_clean k hk).1, contains_kw k hk l hkw, hasTag_renderLine l h]
  cases ht : tagsOf l with
  | nil => rfl
  | cons p r => simp

theorem substLine_single (d : List (Str × Str)) (l : Spec.SLine) (X alt : Str) (ht : tagsOf l = [(X, some alt)]) :
    Spec.substLine (Spec.transSubst d) l = (match Spec.lookupS d X with | some v => setTag l v | none => l) := by
  have all : ∀ s ∈ l, (∃ t, s = .lit t) ∨ s = .tag X (some alt) := by
    intro s hs
    cases s with
    | lit t => exact Or.inl ⟨t, rfl⟩
    | tag n dd =>
      have := mem_tagsOf.mpr hs
      rw [ht] at this
      simp only [List.mem_singleton, Prod.mk.injEq] at this
      right; rw [this.1, this.2]
  cases hl : Spec.lookupS d X with
  | some v =>
    simp only [Spec.substLine, setTag]
    apply List.map_congr_left
    intro s hs
    rcases all s hs with ⟨t, rfl⟩ | rfl
    · rfl
    · simp [Spec.transSubst, hl]
  | none =>
    simp only [Spec.substLine]
    conv => rhs; rw [← List.map_id l]
    apply List.map_congr_left
    intro s hs
    rcases all s hs with ⟨t, rfl⟩ | rfl
    · rfl
    · simp [Spec.transSubst, hl]

/-- **a line whose only tag carries an alternative**: the tag takes the row's value, if the row has one -/
theorem pgtFold_single (d : List (Str × Str)) (hc : ChainOK d) (hkeys : ∀ kv ∈ d, kv.1 ∈ names15)
    (l : Spec.SLine) (h : LineOK l) (hn : NamesOK l) (X alt : Str) (ht : tagsOf l = [(X, some alt)])
    (hkw : ∀ s ∈ merge l, segKw s) :
    (toPat d).foldl pgtStep (Spec.renderLine l) = Spec.renderLine (Spec.substLine (Spec.transSubst d) l) := by
  rw [substLine_single d l X alt ht]
  induction d with
  | nil => rfl
  | cons kv d ih =>
    have hk := hc.key kv (by simp)
    have hv := hc.val kv (by simp)
    have hc' : ChainOK d := ⟨fun x hx => hc.key x (by simp [hx]), fun x hx => hc.val x (by simp [hx])⟩
    have hkeys' : ∀ x ∈ d, x.1 ∈ names15 := fun x hx => hkeys x (by simp [hx])
    have hmem : Spec.Seg.tag X (some alt) ∈ l := mem_tagsOf.mp (by rw [ht]; simp)
    have all : ∀ s ∈ l, (∃ t, s = .lit t) ∨ s = .tag X (some alt) := by
      intro s hs
      cases s with
      | lit t => exact Or.inl ⟨t, rfl⟩
      | tag n dd =>
        have := mem_tagsOf.mpr hs
        rw [ht] at this
        simp only [List.mem_singleton, Prod.mk.injEq] at this
        right; rw [this.1, this.2]
    simp only [toPat, List.map_cons, List.foldl_cons]
    have hspec := hasSpecificTag_kw kv.1 (hkeys kv (by simp)) l h hkw
    rw [ht] at hspec
    simp only [List.any_cons, List.any_nil, Bool.or_false] at hspec
    by_cases hx : X = kv.1
    · -- the tag is this key: the alternative goes, the value comes
      have hb : (X == kv.1) = true := by simpa using hx
      have step : pgtStep (Spec.renderLine l) (tagPat kv.1, kv.2) = Spec.renderLine (setTag l kv.2) := by
        unfold pgtStep
        simp only [hspec, hb, if_true]
        rw [removeDefault_renderLine l h hn]
        have hd : dropLastDefault l = l.map (fun s => if s = Spec.Seg.tag X (some alt) then Spec.Seg.tag X none else s) := by
          unfold dropLastDefault
          change (match (tagsOf l).getLast? with
            | some (n, some d) => l.map (fun s => if s = Spec.Seg.tag n (some d) then Spec.Seg.tag n none else s)
            | _ => l) = _
          rw [ht]; rfl
        have hok : LineOK (dropLastDefault l) := by
          rw [hd]; intro s hs
          simp only [List.mem_map] at hs
          obtain ⟨s0, hs0, e⟩ := hs
          by_cases he : s0 = .tag X (some alt)
          · simp only [he, if_true] at e; subst e; exact (h _ hmem).1
          · simp only [he, if_false] at e; subst e; exact h _ hs0
        rw [pyReplace_renderLine kv.1 kv.2 hk.1 hk.2 _ hok, hd]
        congr 1
        simp only [substOne, setTag, List.map_map]
        apply List.map_congr_left
        intro s hs
        rcases all s hs with ⟨t, rfl⟩ | rfl
        · simp
        · simp [hx]
      rw [step]
      have tl := tagsOf_setTag l kv.2
      change List.foldl pgtStep (Spec.renderLine (setTag l kv.2)) (toPat d) = _
      rw [pgtFold_nodflt d hc' (setTag l kv.2) (setTag_ok l kv.2 h hv) (names_of_tagless _ tl) (nodflt_of_tagless _ tl),
        substChain_tagless d _ tl]
      have : Spec.lookupS (kv :: d) X = some kv.2 := by
        simp [Spec.lookupS, hx]
      rw [this]
    · have hb : (X == kv.1) = false := by simpa using hx
      have step : pgtStep (Spec.renderLine l) (tagPat kv.1, kv.2) = Spec.renderLine l := by
        unfold pgtStep
        simp only [hspec, hb, Bool.false_eq_true, if_false]
        rw [pyReplace_renderLine kv.1 kv.2 hk.1 hk.2 l h]
        congr 1
        unfold substOne
        conv => rhs; rw [← List.map_id l]
        apply List.map_congr_left
        intro s hs
        rcases all s hs with ⟨t, rfl⟩ | rfl <;> rfl
      rw [step]
      have : Spec.lookupS (kv :: d) X = Spec.lookupS d X := by
        have : (kv.1 == X) = false := by simpa using fun e : kv.1 = X => hx e.symm
        simp [Spec.lookupS, this]
      rw [this]
      exact ih hc' hkeys'

/-! ### the decision after the substitutions -/

theorem kinds_clean : ∀ t ∈ pgtKinds, cleanTag t ∈ names15 := by decide
theorem kinds_cover : ∀ n ∈ names15, ∃ t ∈ pgtKinds, cleanTag t = n := by decide
theorem absent_pats : ∀ t ∈ pgtAbsent, ∃ n ∈ names15, t = tagPat n := by decide

/-- some tag of the line is named by a transition keyword -/
def hasTrans (l : Spec.SLine) : Bool := (tagsOf l).any (fun p => names15.contains p.1)

theorem pgtKinds_any (l : Spec.SLine) (h : LineOK l) (hkw : ∀ s ∈ merge l, segKw s) :
    pgtKinds.any (hasSpecificTag (Spec.renderLine l)) = hasTrans l := by
  apply Bool.eq_iff_iff.mpr
  unfold hasTrans
  simp only [List.any_eq_true]
  constructor
  · rintro ⟨t, ht, hs⟩
    unfold hasSpecificTag at hs
    simp only [Bool.and_eq_true] at hs
    have hk := kinds_clean t ht
    rw [contains_kw _ hk l hkw, List.any_eq_true] at hs
    obtain ⟨p, hp, he⟩ := hs.2
    refine ⟨p, hp, ?_⟩
    have : p.1 = cleanTag t := by simpa using he
    rw [this]; simpa using hk
  · rintro ⟨p, hp, hc⟩
    have hm : p.1 ∈ names15 := by simpa using hc
    obtain ⟨t, ht, he⟩ := kinds_cover p.1 hm
    refine ⟨t, ht, ?_⟩
    unfold hasSpecificTag
    rw [he, contains_kw _ hm l hkw, hasTag_renderLine l h]
    simp only [Bool.and_eq_true, Bool.not_eq_true', List.any_eq_true]
    refine ⟨?_, p, hp, by simp⟩
    cases hl : tagsOf l with
    | nil => rw [hl] at hp; cases hp
    | cons a r => rfl

theorem pgtAbsent_all (l : Spec.SLine) (h : LineOK l) (ht : hasTrans l = false) :
    pgtAbsent.all (fun t => (find t (Spec.renderLine l)).isNone) = true := by
  rw [List.all_eq_true]
  intro t htm
  obtain ⟨n, hn, rfl⟩ := absent_pats t htm
  have hc := names15_clean n hn
  rw [find_tag_none n hc.1 l h]; · rfl
  intro s hs hb
  cases s with
  | lit t => cases hb
  | tag n' d' =>
    cases d' with
    | none =>
      simp only [segBody, Option.some.injEq] at hb
      subst hb
      have : hasTrans l = true := by
        unfold hasTrans
        rw [List.any_eq_true]
        exact ⟨(n', none), mem_tagsOf.mpr hs, by simpa using hn⟩
      rw [ht] at this; cases this
    | some a =>
      simp only [segBody, Option.some.injEq] at hb
      have : (61 : Nat) ∈ n := by rw [← hb]; simp
      exact hc.2 61 this rfl

theorem contains_eq_false (n : Str) (h : NoEq n) : contains EQ n = false := by
  induction n with
  | nil => rfl
  | cons c n ih =>
    have hc : c ≠ 61 := h c (by simp)
    have : isPrefixB EQ (c :: n) = false := by simp [EQ, isPrefixB]; exact fun e => hc e.symm
    simp only [contains, this, Bool.false_or]
    exact ih (fun x hx => h x (by simp [hx]))

theorem contains_eq_true (n a : Str) : contains EQ (n ++ 61 :: a) = true := by
  induction n with
  | nil => simp [contains, EQ, isPrefixB]
  | cons c n ih => simp only [List.cons_append, contains, ih, Bool.or_true]

theorem hasDefault_renderLine (l : Spec.SLine) (h : LineOK l) (hn : NamesOK l) :
    hasDefault (Spec.renderLine l) = (tagsOf l).any (fun p => p.2.isSome) := by
  unfold hasDefault
  rw [tagBodies_renderLine l h]
  induction l with
  | nil => rfl
  | cons s r ih =>
    have ih' := ih (fun x hx => h x (by simp [hx])) (fun x hx => hn x (by simp [hx]))
    cases s with
    | lit t => simp only [List.filterMap_cons, segBody, tagsOf] at ih' ⊢; exact ih'
    | tag n d =>
      have hnn : NoEq n := hn (.tag n d) (by simp)
      cases d with
      | none =>
        simp only [List.filterMap_cons, segBody, tagsOf, List.any_cons, contains_eq_false n hnn, Bool.false_or,
          Option.isSome_none] at ih' ⊢
        exact ih'
      | some a =>
        have this' : contains EQ (n ++ 61 :: a) = true := contains_eq_true n a
        simp [segBody, tagsOf, this']

/-- the specification's decision on the substituted line (second half of `Spec.pgtLine`) -/
def specFinal (l' : Spec.SLine) : List Spec.BItem :=
  let absent := l'.filterMap (fun s => match s with
    | .tag n dflt => if Spec.transTagNames.contains n then some dflt else none
    | .lit _ => none)
  if absent.isEmpty then [.line l']
  else
    match absent.filterMap id with
    | alt :: _ =>
      let t := Spec.lineText l'
      [.line [.lit (List.replicate (t.length - (lstrip t).length) SP ++ alt)]]
    | [] => []

theorem spec_pgtLine_eq (d : List (Str × Str)) (l : Spec.SLine) :
    Spec.pgtLine d (.line l) = specFinal (Spec.substLine (Spec.transSubst d) l) := rfl

theorem absent_eq (l : Spec.SLine) :
    l.filterMap (fun s => match s with
      | .tag n dflt => if Spec.transTagNames.contains n then some dflt else none
      | .lit _ => none) =
    (tagsOf l).filterMap (fun p => if names15.contains p.1 then some p.2 else none) := by
  induction l with
  | nil => rfl
  | cons s r ih =>
    cases s with
    | lit t => simp only [List.filterMap_cons, tagsOf] at ih ⊢; exact ih
    | tag n d =>
      have e : names15 = Spec.transTagNames := rfl
      rw [e] at ih ⊢
      simp only [List.filterMap_cons, tagsOf] at ih ⊢
      cases hc : Spec.transTagNames.contains n
      · simp only [Bool.false_eq_true, if_false]; exact ih
      · simp only [if_true]; rw [ih]

theorem single_split (l : Spec.SLine) (X : Str) (d : Option Str) (ht : tagsOf l = [(X, d)]) :
    ∃ pre post, l = pre ++ Spec.Seg.tag X d :: post ∧ tagsOf pre = [] ∧ tagsOf post = [] := by
  induction l with
  | nil => cases ht
  | cons s r ih =>
    cases s with
    | lit t =>
      have : tagsOf r = [(X, d)] := by simpa [tagsOf] using ht
      obtain ⟨pre, post, e, h1, h2⟩ := ih this
      exact ⟨.lit t :: pre, post, by rw [e]; rfl, by simpa [tagsOf] using h1, h2⟩
    | tag n dd =>
      have : (n, dd) :: tagsOf r = [(X, d)] := by simpa [tagsOf] using ht
      simp only [List.cons.injEq, Prod.mk.injEq] at this
      obtain ⟨⟨e1, e2⟩, e3⟩ := this
      subst e1 e2
      exact ⟨[], r, rfl, rfl, e3⟩

theorem clean_tagless (l : Spec.SLine) (h : LineOK l) (ht : tagsOf l = []) : Clean (renderSegs l) := by
  induction l with
  | nil => exact Clean.nil
  | cons s r ih =>
    cases s with
    | tag n d => simp [tagsOf] at ht
    | lit t =>
      have hr : tagsOf r = [] := by simpa [tagsOf] using ht
      have := ih (fun x hx => h x (by simp [hx])) hr
      have ht' : Clean t := h (.lit t) (by simp)
      simp only [renderSegs, List.map_cons, List.flatten_cons, Spec.Seg.render] at this ⊢
      exact ht'.append this

/-- **the decision**: keep the line, drop it, or emit the alternative text at its indentation -/
theorem pgtFinal_spec (l : Spec.SLine) (h : LineOK l) (hn : NamesOK l) (hkw : ∀ s ∈ merge l, segKw s)
    (hshape : NoDflt l ∨ ∃ X alt, tagsOf l = [(X, some alt)]) :
    pgtFinal (Spec.renderLine l) = (specFinal l).map Spec.BItem.render := by
  unfold pgtFinal specFinal
  rw [pgtKinds_any l h hkw, absent_eq]
  cases htr : hasTrans l with
  | false =>
    have hab : (tagsOf l).filterMap (fun p => if names15.contains p.1 then some p.2 else none) = [] := by
      rw [List.filterMap_eq_nil_iff]
      intro p hp
      have : names15.contains p.1 = false := by
        cases hc : names15.contains p.1 with
        | false => rfl
        | true =>
          have : hasTrans l = true := by unfold hasTrans; rw [List.any_eq_true]; exact ⟨p, hp, hc⟩
          rw [htr] at this; cases this
      simp only [this, Bool.false_eq_true, if_false]
    simp only [Bool.false_eq_true, if_false, pgtAbsent_all l h htr, if_true, hab, List.isEmpty_nil]
    rfl
  | true =>
    simp only [if_true]
    unfold hasTrans at htr
    rw [List.any_eq_true] at htr
    obtain ⟨p, hp, hc⟩ := htr
    rw [hasDefault_renderLine l h hn]
    rcases hshape with hd | ⟨X, alt, ht⟩
    · -- no alternative anywhere: the line is dropped
      have h1 : (tagsOf l).any (fun p => p.2.isSome) = false := by
        rw [List.any_eq_false]; intro q hq; rw [hd q hq]; simp
      generalize hA : (tagsOf l).filterMap (fun p => if names15.contains p.1 then some p.2 else none) = A
      have hmemA : (none : Option Str) ∈ A := by
        rw [← hA, List.mem_filterMap]; exact ⟨p, hp, by rw [if_pos hc, hd p hp]⟩
      have hallA : ∀ o ∈ A, o = none := by
        intro o ho
        rw [← hA, List.mem_filterMap] at ho
        obtain ⟨q, hq, he⟩ := ho
        split at he
        · injection he with he; rw [← he, hd q hq]
        · cases he
      have hnone : A.filterMap id = [] := by
        rw [List.filterMap_eq_nil_iff]; intro o ho; rw [hallA o ho]; rfl
      cases A with
      | nil => cases hmemA
      | cons a r =>
        rw [hnone]
        simp only [h1, List.isEmpty_cons, Bool.false_eq_true, if_false]
        rfl
    · -- the single tag is an absent transition tag with an alternative
      rw [ht] at hp
      simp only [List.mem_singleton] at hp
      subst hp
      simp only at hc
      obtain ⟨pre, post, e, hpre, hpost⟩ := single_split l X (some alt) ht
      have hpreok : LineOK pre := fun x hx => h x (by rw [e]; simp [hx])
      have hpostok : LineOK post := fun x hx => h x (by rw [e]; simp [hx])
      have hseg : SegOK (.tag X (some alt)) := h _ (by rw [e]; simp)
      have hXn : NoEq X := hn (.tag X (some alt)) (by rw [e]; simp)
      have htext : Spec.renderLine l = renderSegs pre ++ LLL ++ (X ++ [61] ++ alt) ++ GGG ++ (renderSegs post ++ [NL]) := by
        rw [renderLine_eq, e]; simp [renderSegs, Spec.Seg.render]
      have hx := extractDefaultAndTag_single (renderSegs pre) (X ++ [61] ++ alt) (renderSegs post ++ [NL]) EQ
        (clean_tagless pre hpreok hpre) ((hseg.1.append clean_eq).append hseg.2)
        ((clean_tagless post hpostok hpost).append clean_nl)
      rw [← htext, splitOnce_eq_default X alt hXn] at hx
      rw [ht]
      simp only [List.any_cons, Option.isSome_some, Bool.true_or, if_true, List.filterMap_cons, hc,
        List.filterMap_nil, List.isEmpty_cons, Bool.false_eq_true, if_false, id, List.map_cons, List.map_nil]
      rw [hx]
      simp [Spec.BItem.render, Spec.renderLine, Spec.Seg.render, Spec.lineText, NLs]

/-! ### the line theorem and its lift to a block -/

theorem substLine_trans_nodflt (d : List (Str × Str)) (l : Spec.SLine) (hd : NoDflt l) :
    Spec.substLine (Spec.transSubst d) l = substChain d l := by
  rw [substChain_eq]
  simp only [Spec.substLine]
  apply List.map_congr_left
  intro s hs
  cases s with
  | lit t => rfl
  | tag n dd =>
    have := hd (n, dd) (mem_tagsOf.mpr hs)
    simp only at this
    subst this
    rfl

theorem substChain_keeps (d : List (Str × Str)) (l : Spec.SLine) (hn : NamesOK l) (hd : NoDflt l) :
    NamesOK (substChain d l) ∧ NoDflt (substChain d l) := by
  induction d generalizing l with
  | nil => exact ⟨hn, hd⟩
  | cons kv d ih =>
    simp only [substChain, List.foldl_cons]
    exact ih _ (substOne_names _ _ l hn) (substOne_nodflt _ _ l hd)

theorem lookupS_mem (d : List (Str × Str)) (k v : Str) (h : Spec.lookupS d k = some v) : ∃ kv ∈ d, kv.2 = v := by
  unfold Spec.lookupS at h
  cases hf : d.find? (fun kv => kv.1 == k) with
  | none => rw [hf] at h; cases h
  | some kv =>
    rw [hf] at h
    simp only [Option.map_some, Option.some.injEq] at h
    exact ⟨kv, List.mem_of_find?_eq_some hf, h⟩

/-- the grammar of a line inside a per-guard-transition block, for one transition's dictionary -/
structure PgtLineOK (d : List (Str × Str)) (l : Spec.SLine) : Prop where
  ok : LineOK l
  names : NamesOK l
  /-- no tag has an alternative text, or the line's only tag has one -/
  shape : NoDflt l ∨ ∃ X alt, tagsOf l = [(X, some alt)]
  /-- literal runs, alternative texts and foreign tag names mention no transition keyword … -/
  kw : ∀ s ∈ merge l, segKw s
  /-- … also once the row's values are in place -/
  kw' : ∀ s ∈ merge (Spec.substLine (Spec.transSubst d) l), segKw s

/-- **one line of a per-guard-transition block, for one transition** -/
theorem pgtLine_line (d : List (Str × Str)) (hc : ChainOK d) (hkeys : ∀ kv ∈ d, kv.1 ∈ names15)
    (l : Spec.SLine) (h : PgtLineOK d l) :
    pgtLine (toPat d) (Spec.renderLine l) = (Spec.pgtLine d (.line l)).map Spec.BItem.render := by
  rw [pgtLine_eq, spec_pgtLine_eq]
  rcases h.shape with hd | ⟨X, alt, ht⟩
  · rw [pgtFold_nodflt d hc l h.ok h.names hd]
    have e := substLine_trans_nodflt d l hd
    have keep := substChain_keeps d l h.names hd
    have ok' := (applySubst_renderLine d hc l h.ok).2
    rw [e]
    apply pgtFinal_spec _ ok' keep.1 (by rw [← e]; exact h.kw') (Or.inl keep.2)
  · rw [pgtFold_single d hc hkeys l h.ok h.names X alt ht h.kw]
    have hs := substLine_single d l X alt ht
    have hk' := h.kw'
    cases hl : Spec.lookupS d X with
    | none =>
      rw [hl] at hs
      rw [hs] at hk' ⊢
      exact pgtFinal_spec l h.ok h.names hk' (Or.inr ⟨X, alt, ht⟩)
    | some v =>
      rw [hl] at hs
      rw [hs] at hk' ⊢
      obtain ⟨kv, hkv, hv⟩ := lookupS_mem d X v hl
      have hcv : Clean v := hv ▸ hc.val kv hkv
      have tl := tagsOf_setTag l v
      exact pgtFinal_spec _ (setTag_ok l v h.ok hcv) (names_of_tagless _ tl) hk' (Or.inl (nodflt_of_tagless _ tl))

/-- a white-space-only (or any tagless, keyword-free) line passes unchanged -/
theorem pgtLine_blank (d : List (Str × Str)) (hc : ChainOK d) (hkeys : ∀ kv ∈ d, kv.1 ∈ names15)
    (t : Str) (ht : Clean t) (hk : KwFree t) :
    pgtLine (toPat d) (t ++ [NL]) = [t ++ [NL]] := by
  have hl : PgtLineOK d [.lit t] := by
    refine ⟨?_, ?_, Or.inl ?_, ?_, ?_⟩
    · intro s hs; simp only [List.mem_singleton] at hs; subst hs; exact ht
    · intro s hs; simp only [List.mem_singleton] at hs; subst hs; trivial
    · intro p hp; cases hp
    · intro s hs; simp only [merge, List.mem_singleton] at hs; subst hs; exact hk
    · intro s hs; simp only [Spec.substLine, List.map_cons, List.map_nil, merge, List.mem_singleton] at hs; subst hs; exact hk
  have := pgtLine_line d hc hkeys [.lit t] hl
  simpa [Spec.renderLine, Spec.Seg.render, Spec.pgtLine, Spec.substLine, Spec.BItem.render] using this

def PgtItemOK (d : List (Str × Str)) : Spec.BItem → Prop
  | .line l => PgtLineOK d l
  | .blank t => Clean t ∧ KwFree t

theorem pgtLine_item (d : List (Str × Str)) (hc : ChainOK d) (hkeys : ∀ kv ∈ d, kv.1 ∈ names15)
    (i : Spec.BItem) (h : PgtItemOK d i) :
    pgtLine (toPat d) i.render = (Spec.pgtLine d i).map Spec.BItem.render := by
  cases i with
  | line l => exact pgtLine_line d hc hkeys l h
  | blank t => simpa [Spec.BItem.render, Spec.pgtLine] using pgtLine_blank d hc hkeys t h.1 h.2

theorem transDict_eq (r : Table.Row) : transDict r = toPat (Spec.transTags r) := by
  cases r with
  | mk src ev next action guard => cases next <;> cases action <;> cases guard <;> rfl

theorem transTags_keys (r : Table.Row) : ∀ kv ∈ Spec.transTags r, kv.1 ∈ names15 := by
  have key : ∀ k ∈ (Spec.transTags r).map (·.1), k ∈ names15 := by
    cases r with
    | mk src ev next action guard =>
      cases next <;> cases action <;> cases guard <;>
        simp only [Spec.transTags, List.append_nil, List.nil_append, List.cons_append, List.map_cons, List.map_nil] <;>
        decide
  intro kv hkv
  exact key kv.1 (List.mem_map_of_mem hkv)

/-- the values of the row are free of angle brackets -/
def RowOK (r : Table.Row) : Prop := ∀ kv ∈ Spec.transTags r, Clean kv.2

theorem transTags_chain (r : Table.Row) (h : RowOK r) : ChainOK (Spec.transTags r) :=
  ⟨fun kv hkv => names15_clean kv.1 (transTags_keys r kv hkv), h⟩

/-- **a per-guard-transition block**: for every transition of the (state, event) pair, in table order,
    every body line goes through the line rule -/
theorem pgtExpand_eq (rows : List Table.Row) (body : List Spec.BItem) (hr : ∀ r ∈ rows, RowOK r)
    (hb : ∀ r ∈ rows, ∀ i ∈ body, PgtItemOK (Spec.transTags r) i) :
    pgtExpand rows (body.map Spec.BItem.render) [] =
      some (((rows.map (fun r => (body.map (Spec.pgtLine (Spec.transTags r))).flatten)).flatten).map Spec.BItem.render) := by
  unfold pgtExpand
  simp only [List.isEmpty_nil, Bool.not_true, Bool.false_eq_true, if_false, Option.some.injEq]
  rw [List.map_flatten, List.map_map]
  congr 1
  apply List.map_congr_left
  intro r hrm
  simp only [Function.comp, List.map_flatten, List.map_map]
  congr 1
  apply List.map_congr_left
  intro i hi
  simp only [Function.comp]
  rw [transDict_eq]
  exact pgtLine_item _ (transTags_chain r (hr r hrm)) (transTags_keys r) i (hb r hrm i hi)

/-! ### what the rule says, case by case (facts about the specification) -/

theorem mem_tagsOf_substLine (f : Str → Option Str → Option Str) (l : Spec.SLine) (n : Str) (dd : Option Str)
    (h : (n, dd) ∈ tagsOf (Spec.substLine f l)) : (n, dd) ∈ tagsOf l ∧ f n dd = none := by
  rw [mem_tagsOf] at h
  simp only [Spec.substLine, List.mem_map] at h
  obtain ⟨s, hs, he⟩ := h
  cases s with
  | lit t => cases he
  | tag n' d' =>
    simp only at he
    cases hf : f n' d' with
    | some v => rw [hf] at he; cases he
    | none =>
      rw [hf] at he
      simp only [Spec.Seg.tag.injEq] at he
      obtain ⟨e1, e2⟩ := he
      subst e1 e2
      exact ⟨mem_tagsOf.mpr hs, hf⟩

theorem tagsOf_substLine_mem (f : Str → Option Str → Option Str) (l : Spec.SLine) (n : Str) (dd : Option Str)
    (h : (n, dd) ∈ tagsOf l) (hf : f n dd = none) : (n, dd) ∈ tagsOf (Spec.substLine f l) := by
  rw [mem_tagsOf] at h ⊢
  simp only [Spec.substLine, List.mem_map]
  exact ⟨_, h, by simp [hf]⟩

/-- every transition tag of the line is answered by the row: the line is emitted with the values -/
theorem spec_pgt_keeps (d : List (Str × Str)) (l : Spec.SLine)
    (h : ∀ p ∈ tagsOf l, p.1 ∈ names15 → (Spec.lookupS d p.1).isSome = true) :
    Spec.pgtLine d (.line l) = [.line (Spec.substLine (Spec.transSubst d) l)] := by
  rw [spec_pgtLine_eq]
  unfold specFinal
  rw [absent_eq]
  have : (tagsOf (Spec.substLine (Spec.transSubst d) l)).filterMap
      (fun p => if names15.contains p.1 then some p.2 else none) = [] := by
    rw [List.filterMap_eq_nil_iff]
    intro p hp
    obtain ⟨n, dd⟩ := p
    obtain ⟨hm, hf⟩ := mem_tagsOf_substLine _ l n dd hp
    cases hc : names15.contains n with
    | false => simp only [Bool.false_eq_true, if_false]
    | true =>
      have := h (n, dd) hm (by simpa using hc)
      simp only [Spec.transSubst] at hf
      rw [hf] at this; cases this
  rw [this]; rfl

/-- a line without alternatives that mentions a transition tag the row does not answer is dropped -/
theorem spec_pgt_drops (d : List (Str × Str)) (l : Spec.SLine) (hd : NoDflt l) (X : Str) (hX : X ∈ names15)
    (hin : (X, none) ∈ tagsOf l) (hab : Spec.lookupS d X = none) : Spec.pgtLine d (.line l) = [] := by
  rw [spec_pgtLine_eq]
  unfold specFinal
  rw [absent_eq]
  generalize hA : (tagsOf (Spec.substLine (Spec.transSubst d) l)).filterMap
      (fun p => if names15.contains p.1 then some p.2 else none) = A
  have hc : names15.contains X = true := by simpa using hX
  have hmemA : (none : Option Str) ∈ A := by
    rw [← hA, List.mem_filterMap]
    exact ⟨(X, none), tagsOf_substLine_mem _ l X none hin (by simp [Spec.transSubst, hab]), by simp only [hc, if_true]⟩
  have hallA : ∀ o ∈ A, o = none := by
    intro o ho
    rw [← hA, List.mem_filterMap] at ho
    obtain ⟨q, hq, he⟩ := ho
    obtain ⟨n, dd⟩ := q
    have := hd (n, dd) (mem_tagsOf_substLine _ l n dd hq).1
    simp only at this
    split at he
    · injection he with he; rw [← he, this]
    · cases he
  have hnone : A.filterMap id = [] := by
    rw [List.filterMap_eq_nil_iff]; intro o ho; rw [hallA o ho]; rfl
  cases A with
  | nil => cases hmemA
  | cons a r => simp only [hnone, List.isEmpty_cons, Bool.false_eq_true, if_false]

/-- the indentation of a line: as many spaces as its text has leading white space -/
def indentOf (l : Spec.SLine) : Str :=
  List.replicate ((Spec.lineText l).length - (lstrip (Spec.lineText l)).length) SP

/-- the line's single tag is an unanswered transition tag with an alternative: the alternative text,
    at the line's indentation, replaces the line -/
theorem spec_pgt_alternative (d : List (Str × Str)) (l : Spec.SLine) (X alt : Str) (ht : tagsOf l = [(X, some alt)])
    (hX : X ∈ names15) (hab : Spec.lookupS d X = none) :
    Spec.pgtLine d (.line l) = [.line [.lit (indentOf l ++ alt)]] := by
  rw [spec_pgtLine_eq, substLine_single d l X alt ht, hab]
  unfold specFinal
  rw [absent_eq, ht]
  have hc : names15.contains X = true := by simpa using hX
  simp only [List.filterMap_cons, hc, if_true, List.filterMap_nil, List.isEmpty_cons, Bool.false_eq_true, if_false, id]
  rfl

/-- … and when the row answers the tag, the alternative is not used -/
theorem spec_pgt_alternative_unused (d : List (Str × Str)) (l : Spec.SLine) (X alt v : Str)
    (ht : tagsOf l = [(X, some alt)]) (hv : Spec.lookupS d X = some v) :
    Spec.pgtLine d (.line l) = [.line (setTag l v)] := by
  rw [spec_pgtLine_eq, substLine_single d l X alt ht, hv]
  unfold specFinal
  rw [absent_eq, tagsOf_setTag]
  rfl

/-- what the row's dictionary answers -/
theorem transTags_values (r : Table.Row) :
    Spec.lookupS (Spec.transTags r) (T "ACTIONNAME") = r.action ∧
    Spec.lookupS (Spec.transTags r) (T "GUARDNAME") = r.guard ∧
    Spec.lookupS (Spec.transTags r) (T "NEXTSTATENAME") = r.next ∧
    Spec.lookupS (Spec.transTags r) (T "STATENAMEIFNEXTSTATE") = r.next.map (fun _ => r.src) := by
  cases r with
  | mk src ev next action guard =>
    cases next <;> cases action <;> cases guard <;>
      simp +decide [Spec.transTags, Spec.lookupS]

/-! ### executable hypotheses -/

def singleB (l : Spec.SLine) : Bool :=
  match tagsOf l with
  | [(_, some _)] => true
  | _ => false

def pgtLineOKB (d : List (Str × Str)) (l : Spec.SLine) : Bool :=
  decide (LineOK l) && decide (NamesOK l) && (decide (NoDflt l) || singleB l) &&
  (merge l).all (fun s => decide (segKw s)) &&
  (merge (Spec.substLine (Spec.transSubst d) l)).all (fun s => decide (segKw s))

theorem pgtLineOKB_sound (d : List (Str × Str)) (l : Spec.SLine) (h : pgtLineOKB d l = true) : PgtLineOK d l := by
  unfold pgtLineOKB at h
  simp only [Bool.and_eq_true, Bool.or_eq_true, decide_eq_true_eq, List.all_eq_true] at h
  obtain ⟨⟨⟨⟨h1, h2⟩, h3⟩, h4⟩, h5⟩ := h
  refine ⟨h1, h2, ?_, h4, h5⟩
  rcases h3 with h3 | h3
  · exact Or.inl h3
  · right
    unfold singleB at h3
    split at h3
    · rename_i X alt ht; exact ⟨X, alt, ht⟩
    · cases h3

def pgtItemOKB (d : List (Str × Str)) : Spec.BItem → Bool
  | .line l => pgtLineOKB d l
  | .blank t => decide (Clean t) && decide (KwFree t)

theorem pgtItemOKB_sound (d : List (Str × Str)) (i : Spec.BItem) (h : pgtItemOKB d i = true) : PgtItemOK d i := by
  cases i with
  | line l => exact pgtLineOKB_sound d l h
  | blank t => simpa [pgtItemOKB, PgtItemOK] using h

def rowOKB (r : Table.Row) : Bool := (Spec.transTags r).all (fun kv => decide (Clean kv.2))

theorem rowOKB_sound (r : Table.Row) (h : rowOKB r = true) : RowOK r := by
  unfold rowOKB at h
  simp only [List.all_eq_true, decide_eq_true_eq] at h
  exact h

end Engine
end KojenVerif
