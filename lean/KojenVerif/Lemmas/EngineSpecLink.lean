import KojenVerif.Lemmas.EngineLoad
import KojenVerif.Lemmas.EngineSecondClosed
/-
  The closed form the engine theorems arrive at (`fileOut`) is the specification's `expandFile`.
-/
namespace KojenVerif
namespace Engine
open Str

/-! ### two dictionary substitutions in a row are the substitution by the concatenated dictionary -/

theorem substLine_comp (a b : List (Str × Str)) (l : Spec.SLine) :
    Spec.substLine (Spec.byDict b) (Spec.substLine (Spec.byDict a) l) = Spec.substLine (Spec.byDict (a ++ b)) l := by
  unfold Spec.substLine
  rw [List.map_map]
  apply List.map_congr_left
  intro s _
  cases s with
  | lit t => rfl
  | tag n d =>
    cases d with
    | some x => simp [Spec.byDict]
    | none =>
      simp only [Function.comp, Spec.byDict, lookupS_append]
      cases Spec.lookupS a n with
      | some v => rfl
      | none => simp only [Option.orElse_none]

theorem bitem_comp (a b : List (Str × Str)) (i : Spec.BItem) :
    (i.subst (Spec.byDict a)).subst (Spec.byDict b) = i.subst (Spec.byDict (a ++ b)) := by
  cases i with
  | blank t => rfl
  | line l => simp only [Spec.BItem.subst, substLine_comp]

theorem bitems_comp (a b : List (Str × Str)) (body : List Spec.BItem) :
    (body.map (Spec.BItem.subst (Spec.byDict a))).map (Spec.BItem.subst (Spec.byDict b)) =
      body.map (Spec.BItem.subst (Spec.byDict (a ++ b))) := by
  rw [List.map_map]; apply List.map_congr_left; intro i _; exact bitem_comp a b i

theorem pet_comp (a b : List (Str × Str)) (q : Spec.PetItem) :
    (q.subst (Spec.byDict a)).subst (Spec.byDict b) = q.subst (Spec.byDict (a ++ b)) := by
  cases q with
  | b i => simp only [Spec.PetItem.subst, bitem_comp]
  | pgt ws body => simp only [Spec.PetItem.subst, bitems_comp]

theorem pst_comp (a b : List (Str × Str)) (q : Spec.PstItem) :
    (q.subst (Spec.byDict a)).subst (Spec.byDict b) = q.subst (Spec.byDict (a ++ b)) := by
  cases q with
  | b i => simp only [Spec.PstItem.subst, bitem_comp]
  | pet ws body =>
    simp only [Spec.PstItem.subst, List.map_map]
    congr 1; apply List.map_congr_left; intro i _; exact pet_comp a b i

theorem item_comp (a b : List (Str × Str)) (it : Spec.Item) :
    (it.subst (Spec.byDict a)).subst (Spec.byDict b) = it.subst (Spec.byDict (a ++ b)) := by
  cases it with
  | b i => simp only [Spec.Item.subst, bitem_comp]
  | block k ws body => simp only [Spec.Item.subst, bitems_comp]
  | pst ws body =>
    simp only [Spec.Item.subst, List.map_map]
    congr 1; apply List.map_congr_left; intro i _; exact pst_comp a b i
  | cond ws brs els =>
    simp only [Spec.Item.subst, List.map_map]
    congr 1
    · apply List.map_congr_left; intro br _
      simp only [Function.comp, bitems_comp]
    · cases els with
      | none => rfl
      | some e => simp only [Option.map_some, bitems_comp]
  | loop ws p body => simp only [Spec.Item.subst, bitems_comp]

/-! ### the user-tag rule and the FOR rule commute on tags that are not the loop's own -/

/-- the tags a FOR block gives values to -/
def loopKeys : List Str := [FIRSTk, LASTk, T "EACH", T "each", T "ALPH", T "NUM"]

/-- no user tag is named like a loop tag -/
def UtFree (ut : List (Str × Str)) : Prop := ∀ k ∈ loopKeys, Spec.lookupS ut k = none

instance (ut : List (Str × Str)) : Decidable (UtFree ut) := by unfold UtFree; exact inferInstance

theorem lookupS_key (d : List (Str × Str)) (n v : Str) (h : Spec.lookupS d n = some v) : n ∈ d.map (·.1) := by
  unfold Spec.lookupS at h
  cases hf : d.find? (fun kv => kv.1 == n) with
  | none => rw [hf] at h; cases h
  | some kv =>
    have hm := List.mem_of_find?_eq_some hf
    have hk := List.find?_some hf
    simp only [beq_iff_eq] at hk
    rw [← hk]
    exact List.mem_map_of_mem hm

theorem seg_commute (ut d : List (Str × Str)) (hd : ∀ n v, Spec.lookupS d n = some v → Spec.lookupS ut n = none)
    (l : Spec.SLine) :
    Spec.substLine (Spec.byDict d) (Spec.substLine (Spec.userSubst ut) l) =
      Spec.substLine (Spec.userSubst ut) (Spec.substLine (Spec.byDict d) l) := by
  unfold Spec.substLine
  rw [List.map_map, List.map_map]
  apply List.map_congr_left
  intro s _
  cases s with
  | lit t => rfl
  | tag n dd =>
    cases dd with
    | some x =>
      simp only [Function.comp, Spec.userSubst, Spec.byDict]
      cases Spec.lookupS ut n <;> rfl
    | none =>
      simp only [Function.comp, Spec.userSubst, Spec.byDict]
      cases hu : Spec.lookupS ut n with
      | some v =>
        cases hl : Spec.lookupS d n with
        | some w => rw [hd n w hl] at hu; cases hu
        | none => simp only [hu]
      | none =>
        cases hl : Spec.lookupS d n with
        | some w => simp only [hl]
        | none => simp only [hl, hu]

theorem bitem_commute (ut d : List (Str × Str)) (hd : ∀ n v, Spec.lookupS d n = some v → Spec.lookupS ut n = none)
    (i : Spec.BItem) :
    (i.subst (Spec.userSubst ut)).subst (Spec.byDict d) = (i.subst (Spec.byDict d)).subst (Spec.userSubst ut) := by
  cases i with
  | blank t => rfl
  | line l => simp only [Spec.BItem.subst, seg_commute ut d hd]

/-- a dictionary whose keys are loop tags, against user tags free of them -/
theorem loopDict_ok (ut d : List (Str × Str)) (hu : UtFree ut) (hk : ∀ k ∈ d.map (·.1), k ∈ loopKeys) :
    ∀ n v, Spec.lookupS d n = some v → Spec.lookupS ut n = none :=
  fun n v h => hu n (hk n (lookupS_key d n v h))

/-- no FIRST / LAST tag of the line carries an inline default -/
def FLPlain : Spec.BItem → Prop
  | .blank _ => True
  | .line l => ∀ s ∈ l, match s with
    | .tag n (some _) => n ≠ FIRSTk ∧ n ≠ LASTk
    | _ => True

instance : (i : Spec.BItem) → Decidable (FLPlain i)
  | .blank _ => by unfold FLPlain; exact inferInstance
  | .line l => by
    unfold FLPlain
    refine @List.decidableBAll _ _ (fun s => ?_) l
    cases s with
    | lit t => exact inferInstance
    | tag n d => cases d <;> exact inferInstance

theorem hasTagNamed_user (ut : List (Str × Str)) (k : Str) (hk : Spec.lookupS ut k = none) (i : Spec.BItem)
    (hp : match i with | .blank _ => True | .line l => ∀ s ∈ l, match s with | .tag n (some _) => n ≠ k | _ => True) :
    Spec.hasTagNamed k (i.subst (Spec.userSubst ut)) = Spec.hasTagNamed k i := by
  cases i with
  | blank t => rfl
  | line l =>
    simp only [Spec.BItem.subst, Spec.hasTagNamed, Spec.substLine, List.any_map]
    induction l with
    | nil => rfl
    | cons s l ih =>
      simp only [List.any_cons]
      rw [ih (fun s' hs' => hp s' (by simp [hs']))]
      congr 1
      have hs := hp s (by simp)
      cases s with
      | lit t => rfl
      | tag n d =>
        simp only [Function.comp, Spec.userSubst]
        by_cases hn : n = k
        · subst hn
          cases d with
          | some x => exact absurd rfl hs
          | none => simp only [hk]
        · have : (n == k) = false := by simpa using hn
          cases Spec.lookupS ut n with
          | some v => simp only [this]
          | none => cases d <;> simp only [this]

theorem hasFirst_user (ut : List (Str × Str)) (hu : UtFree ut) (i : Spec.BItem) (hp : FLPlain i) :
    Spec.hasTagNamed FIRSTk (i.subst (Spec.userSubst ut)) = Spec.hasTagNamed FIRSTk i := by
  apply hasTagNamed_user ut FIRSTk (hu _ (by simp [loopKeys])) i
  cases i with
  | blank t => trivial
  | line l =>
    intro s hs
    have := hp s hs
    cases s with
    | lit t => trivial
    | tag n d => cases d with
      | none => trivial
      | some x => exact this.1

theorem hasLast_user (ut : List (Str × Str)) (hu : UtFree ut) (i : Spec.BItem) (hp : FLPlain i) :
    Spec.hasTagNamed LASTk (i.subst (Spec.userSubst ut)) = Spec.hasTagNamed LASTk i := by
  apply hasTagNamed_user ut LASTk (hu _ (by simp [loopKeys])) i
  cases i with
  | blank t => trivial
  | line l =>
    intro s hs
    have := hp s hs
    cases s with
    | lit t => trivial
    | tag n d => cases d with
      | none => trivial
      | some x => exact this.2

theorem find?_map_congr {α} (f : α → α) (p : α → Bool) (l : List α) (h : ∀ x ∈ l, p (f x) = p x) :
    (l.map f).find? p = (l.find? p).map f := by
  induction l with
  | nil => rfl
  | cons x l ih =>
    simp only [List.map_cons, List.find?_cons, h x (by simp)]
    cases p x with
    | true => rfl
    | false => exact ih (fun y hy => h y (by simp [hy]))

theorem filter_map_congr {α} (f : α → α) (p : α → Bool) (l : List α) (h : ∀ x ∈ l, p (f x) = p x) :
    (l.map f).filter p = (l.filter p).map f := by
  induction l with
  | nil => rfl
  | cons x l ih =>
    simp only [List.map_cons, List.filter_cons, h x (by simp)]
    cases p x with
    | true => simp only [if_true, List.map_cons, ih (fun y hy => h y (by simp [hy]))]
    | false => simp only [Bool.false_eq_true, if_false, ih (fun y hy => h y (by simp [hy]))]

/-- **the loop of the user-substituted body is the user-substituted loop** -/
theorem loopOut_user (ut : List (Str × Str)) (hu : UtFree ut) (items : List Str) (body : List Spec.BItem)
    (hb : ∀ i ∈ body, FLPlain i) :
    loopOut items (body.map (Spec.BItem.subst (Spec.userSubst ut))) =
      (loopOut items body).map (Spec.BItem.subst (Spec.userSubst ut)) := by
  unfold loopOut
  have hF : ∀ x ∈ body, Spec.hasTagNamed FIRSTk (x.subst (Spec.userSubst ut)) = Spec.hasTagNamed FIRSTk x :=
    fun x hx => hasFirst_user ut hu x (hb x hx)
  have hL : ∀ x ∈ body, Spec.hasTagNamed LASTk (x.subst (Spec.userSubst ut)) = Spec.hasTagNamed LASTk x :=
    fun x hx => hasLast_user ut hu x (hb x hx)
  rw [find?_map_congr _ (Spec.hasTagNamed FIRSTk) body hF]
  rw [find?_map_congr _ (fun i => Spec.hasTagNamed LASTk i && !Spec.hasTagNamed FIRSTk i) body
    (fun x hx => by simp only [hF x hx, hL x hx])]
  rw [filter_map_congr _ (fun i => !Spec.hasTagNamed FIRSTk i && !Spec.hasTagNamed LASTk i) body
    (fun x hx => by simp only [hF x hx, hL x hx])]
  simp only [List.map_append]
  congr 1
  · congr 1
    · cases body.find? (Spec.hasTagNamed FIRSTk) with
      | none => rfl
      | some f =>
        simp only [Option.map_some, List.map_cons, List.map_nil]
        rw [bitem_commute ut _ (loopDict_ok ut _ hu (by simp [loopKeys]))]
    · simp only [List.map_flatten, List.map_map]
      congr 1
      apply List.map_congr_left
      intro q _
      simp only [Function.comp, List.map_map]
      apply List.map_congr_left
      intro i _
      simp only [Function.comp]
      exact bitem_commute ut _ (loopDict_ok ut _ hu (by simp [loopKeys, Spec.counterTags])) i
  · cases body.find? (fun i => Spec.hasTagNamed LASTk i && !Spec.hasTagNamed FIRSTk i) with
    | none => rfl
    | some f =>
      simp only [Option.map_some, List.map_cons, List.map_nil]
      rw [bitem_commute ut _ (loopDict_ok ut _ hu (by simp [loopKeys]))]

/-! ### one item -/

/-- the parameter of a loop is a literal list or count -/
def ForParamLiteral : Spec.ForParam → Prop
  | .userTag _ _ => False
  | _ => True

instance : (p : Spec.ForParam) → Decidable (ForParamLiteral p)
  | .list _ => isTrue trivial
  | .count _ => isTrue trivial
  | .userTag _ _ => isFalse (fun h => h)

theorem forItems_literal (fd ut fd' ut' : List (Str × Str)) (p : Spec.ForParam) (h : ForParamLiteral p) :
    Spec.forItems fd p ut = Spec.forItems fd' p ut' := by
  cases p with
  | list raw => rfl
  | count raw => rfl
  | userTag n d => exact absurd h (fun h => h)

theorem expandLoop_of_items (fd ut : List (Str × Str)) (p : Spec.ForParam) (body : List Spec.BItem) (items : List Str)
    (h : Spec.forItems fd p ut = some items) :
    Spec.expandLoop fd ut p body = some (if items.isEmpty then [] else loopOut items body) := by
  cases hi : items.isEmpty with
  | false =>
    simp only [Bool.false_eq_true, if_false]
    exact expandLoop_eq fd ut p body items h (by intro e; rw [e] at hi; cases hi)
  | true =>
    unfold Spec.expandLoop
    rw [h]
    simp only [hi, if_true]

/-- the grammar of an item for the link: loops are over literal lists or counts the engine accepts, and
    no FIRST / LAST tag in them has an inline default -/
def LinkItemOK : Spec.Item → Prop
  | .loop _ p body => ForParamLiteral p ∧ (Spec.forItems [] p []).isSome = true ∧ ∀ i ∈ body, FLPlain i
  | _ => True

instance : (it : Spec.Item) → Decidable (LinkItemOK it)
  | .b _ => isTrue trivial
  | .block _ _ _ => isTrue trivial
  | .pst _ _ => isTrue trivial
  | .cond _ _ _ => isTrue trivial
  | .loop _ _ _ => by unfold LinkItemOK; exact inferInstance

/-- what the three passes after the load phase make of one item -/
def itemOut (m : Spec.Model) (ut : List (Str × Str)) (it : Spec.Item) : List Spec.Item :=
  ((blockOut m it).flatMap (userItemOut ut)).flatMap forOut

theorem bs_out (ut : List (Str × Str)) (bs : List Spec.BItem) :
    Spec.renderFile (((bs.map Spec.Item.b).flatMap (userItemOut ut)).flatMap forOut) = bs.map (Spec.userText ut) := by
  induction bs with
  | nil => rfl
  | cons b bs ih =>
    simp only [List.map_cons, List.flatMap_cons, userItemOut, List.singleton_append, forOut, Spec.renderFile,
      List.flatten_cons, Spec.Item.render, userText_render] at ih ⊢
    rw [ih]

theorem bs_out' (ut : List (Str × Str)) (bs : List Spec.BItem) :
    Spec.renderFile ((bs.map (fun i => Spec.Item.b (i.subst (Spec.userSubst ut)))).flatMap forOut) = bs.map (Spec.userText ut) := by
  induction bs with
  | nil => rfl
  | cons b bs ih =>
    simp only [List.map_cons, List.flatMap_cons, List.singleton_append, forOut, Spec.renderFile,
      List.flatten_cons, Spec.Item.render, userText_render] at ih ⊢
    rw [ih]

theorem item_link (m : Spec.Model) (fd ut : List (Str × Str)) (hu : UtFree ut) (it : Spec.Item) (h : LinkItemOK it) :
    ∃ bs, Spec.expandItem m fd ut it = some bs ∧ bs.map (Spec.userText ut) = Spec.renderFile (itemOut m ut it) := by
  cases it with
  | b i =>
    refine ⟨[i], rfl, ?_⟩
    simp [itemOut, blockOut, userItemOut, forOut, Spec.renderFile, Spec.Item.render, userText_render]
  | block k ws body =>
    refine ⟨Spec.expandBlock m k body, rfl, ?_⟩
    simp only [itemOut, blockOut]
    exact (bs_out ut _).symm
  | pst ws body =>
    refine ⟨Spec.expandPst m.table body, rfl, ?_⟩
    simp only [itemOut, blockOut]
    exact (bs_out ut _).symm
  | cond ws brs els =>
    refine ⟨Spec.expandCond ut brs els, rfl, ?_⟩
    simp only [itemOut, blockOut, List.flatMap_cons, List.flatMap_nil, List.append_nil, userItemOut]
    exact (bs_out' ut _).symm
  | loop ws p body =>
    obtain ⟨hp, hs, hb⟩ := h
    obtain ⟨items, hi⟩ := Option.isSome_iff_exists.mp hs
    have h1 : Spec.forItems fd p ut = some items := by rw [forItems_literal fd ut [] [] p hp]; exact hi
    refine ⟨_, expandLoop_of_items fd ut p body items h1, ?_⟩
    simp only [itemOut, blockOut, List.flatMap_cons, List.flatMap_nil, List.append_nil, userItemOut, forOut]
    rw [expandLoop_of_items [] [] p _ items hi]
    simp only
    cases hi' : items.isEmpty with
    | true => rfl
    | false =>
      simp only [Bool.false_eq_true, if_false]
      rw [loopOut_user ut hu items body hb, List.map_map]
      simp only [Spec.renderFile, List.map_map]
      have : ∀ l : List Spec.BItem, ((l.map (Spec.Item.render ∘ Spec.Item.b ∘ Spec.BItem.subst (Spec.userSubst ut)))).flatten =
          l.map (Spec.userText ut) := by
        intro l
        induction l with
        | nil => rfl
        | cons x l ih => simp only [List.map_cons, List.flatten_cons, Function.comp, Spec.Item.render, ih, userText_render]; rfl
      exact (this _).symm

/-! ### a file -/

theorem items_link (m : Spec.Model) (fd ut : List (Str × Str)) (hu : UtFree ut) (items : List Spec.Item)
    (h : ∀ it ∈ items, LinkItemOK it) :
    (mapOpt (Spec.expandItem m fd ut) items).map (fun ls => ls.flatten.map (Spec.userText ut)) =
      some (Spec.renderFile (items.flatMap (itemOut m ut))) := by
  induction items with
  | nil => rfl
  | cons it items ih =>
    obtain ⟨bs, e1, e2⟩ := item_link m fd ut hu it (h it (by simp))
    have ih' := ih (fun x hx => h x (by simp [hx]))
    simp only [mapOpt, e1]
    cases hm : mapOpt (Spec.expandItem m fd ut) items with
    | none => rw [hm] at ih'; cases ih'
    | some bss =>
      rw [hm] at ih'
      simp only [Option.map_some, Option.some.injEq] at ih' ⊢
      simp only [List.flatten_cons, List.map_append, e2, ih', List.flatMap_cons, Spec.renderFile, List.map_append, List.flatten_append]

theorem flatMap_flatMap_itemOut (m : Spec.Model) (ut : List (Str × Str)) (items : List Spec.Item) :
    ((items.flatMap (blockOut m)).flatMap (userItemOut ut)).flatMap forOut = items.flatMap (itemOut m ut) := by
  simp only [List.flatMap_assoc]
  congr 1
  funext it
  simp only [itemOut, List.flatMap_assoc]

/-- **the closed form of the engine theorems is the specification's expansion of the file** -/
theorem fileOut_is_expandFile (globals : List (Str × Str)) (m : Spec.Model) (fd ut : List (Str × Str)) (items : List Spec.Item)
    (hu : UtFree ut)
    (hload : Spec.load (globals ++ [(T "<<<STATE_0>>>", (m.table.head?.map (·.src)).getD (T "NO TT PRESENT!")),
        (T "<<<state_0>>>", camelSmall ((m.table.head?.map (·.src)).getD (T "NO TT PRESENT!")))]) items =
      (loaded (Spec.stripBrackets globals) ⟨[], items⟩).map (Spec.Item.subst (Spec.byDict (st0Keys m))))
    (h : ∀ it ∈ (loaded (Spec.stripBrackets globals) ⟨[], items⟩).map (Spec.Item.subst (Spec.byDict (st0Keys m))), LinkItemOK it) :
    Spec.expandFile globals m fd ut items =
      some (Spec.renderFile (fileOut m ut (loaded (Spec.stripBrackets globals) ⟨[], items⟩))) := by
  unfold Spec.expandFile
  simp only
  rw [hload, items_link m fd ut hu _ h]
  unfold fileOut
  rw [secondOut_closed, flatMap_flatMap_itemOut]

/-! ### the load phase of the specification, when there is nothing for its blank-line filter to drop -/

deriving instance DecidableEq for Spec.PetItem
deriving instance DecidableEq for Spec.PstItem
deriving instance DecidableEq for Spec.ForParam
deriving instance DecidableEq for Spec.Item

theorem stripBrackets_toPat (chain : List (Str × Str)) (hc : ChainOK chain) : Spec.stripBrackets (toPat chain) = chain := by
  unfold Spec.stripBrackets toPat
  rw [List.map_map]
  have : ∀ kv ∈ chain, ((fun kv : Str × Str => (cleanTag kv.1, kv.2)) ∘ (fun kv => (tagPat kv.1, kv.2))) kv = kv := by
    intro kv hkv
    simp only [Function.comp, cleanTag_tagPat kv.1 (hc.key kv hkv).1]
  rw [List.map_congr_left this, List.map_id']

/-- the loaded file with the initial state's name in place -/
def loaded0 (m : Spec.Model) (chain : List (Str × Str)) (items : List Spec.Item) : List Spec.Item :=
  (loaded chain ⟨[], items⟩).map (Spec.Item.subst (Spec.byDict (st0Keys m)))

/-- the grammar of a file for the link -/
structure LinkFileOK (m : Spec.Model) (chain : List (Str × Str)) (items : List Spec.Item) : Prop where
  noCollapse : Spec.collapseItems false (loaded0 m chain items) = loaded0 m chain items
  wf : ∀ it ∈ loaded0 m chain items, LinkItemOK it

instance (m : Spec.Model) (chain : List (Str × Str)) (items : List Spec.Item) : Decidable (LinkFileOK m chain items) :=
  if h : Spec.collapseItems false (loaded0 m chain items) = loaded0 m chain items ∧ ∀ it ∈ loaded0 m chain items, LinkItemOK it
  then isTrue ⟨h.1, h.2⟩ else isFalse (fun k => h ⟨k.noCollapse, k.wf⟩)

theorem load_eq (m : Spec.Model) (chain : List (Str × Str)) (hc : ChainOK chain) (items : List Spec.Item)
    (h : Spec.collapseItems false (loaded0 m chain items) = loaded0 m chain items) :
    Spec.load (toPat chain ++ [(T "<<<STATE_0>>>", (m.table.head?.map (·.src)).getD (T "NO TT PRESENT!")),
        (T "<<<state_0>>>", camelSmall ((m.table.head?.map (·.src)).getD (T "NO TT PRESENT!")))]) items =
      loaded0 m chain items := by
  have e : Spec.stripBrackets (toPat chain ++ [(T "<<<STATE_0>>>", (m.table.head?.map (·.src)).getD (T "NO TT PRESENT!")),
        (T "<<<state_0>>>", camelSmall ((m.table.head?.map (·.src)).getD (T "NO TT PRESENT!")))]) = chain ++ st0Keys m := by
    have : Spec.stripBrackets (toPat chain ++ [(T "<<<STATE_0>>>", (m.table.head?.map (·.src)).getD (T "NO TT PRESENT!")),
        (T "<<<state_0>>>", camelSmall ((m.table.head?.map (·.src)).getD (T "NO TT PRESENT!")))]) =
        Spec.stripBrackets (toPat chain) ++ st0Keys m := by
      simp only [Spec.stripBrackets, List.map_append, List.map_cons, List.map_nil, st0Keys]
      have e1 : cleanTag (T "<<<STATE_0>>>") = T "STATE_0" := by decide
      have e2 : cleanTag (T "<<<state_0>>>") = T "state_0" := by decide
      rw [e1, e2]
    rw [this, stripBrackets_toPat chain hc]
  have e2 : items.map (Spec.Item.subst (Spec.byDict (chain ++ st0Keys m))) = loaded0 m chain items := by
    simp only [loaded0, loaded, List.map_map]
    apply List.map_congr_left
    intro it _
    exact (item_comp chain (st0Keys m) it).symm
  unfold Spec.load
  rw [e, e2, h]

/-- **the front half of the generator computes the specification's expansion of every file** -/
theorem generate_is_expandFile (env : Env) (ht : EnvTotal env) (m : Spec.Model) (chain fnDict userTags : List (Str × Str))
    (isStr : Str → Bool) (files : List TFile) (h : GenOK m chain userTags files) (hc : ChainOK chain)
    (hu : UtFree userTags) (hl : ∀ f ∈ files, LinkFileOK m chain f.items) :
    ∃ out : TFile → List Line,
      generate env { dict := toPat chain, fnDict := fnDict, sm := toSm m, userTags := userTags, userTagIsStr := isStr }
        (files.map (fun f => (f.name, Spec.renderFile f.items))) =
        some (files.map (fun f => (fileName fnDict f.name, out f))) ∧
      ∀ fd, ∀ f ∈ files, Spec.expandFile (toPat chain) m fd userTags f.items = some (out f) := by
  refine ⟨fun f => Spec.renderFile (fileOut m userTags (loaded chain f)),
    generate_files env ht m chain fnDict userTags isStr files h, ?_⟩
  intro fd f hf
  have hf' := hl f hf
  have := fileOut_is_expandFile (toPat chain) m fd userTags f.items hu
    (by rw [stripBrackets_toPat chain hc]; exact load_eq m chain hc f.items hf'.noCollapse)
    (by rw [stripBrackets_toPat chain hc]; exact hf'.wf)
  rw [stripBrackets_toPat chain hc] at this
  exact this

end Engine
end KojenVerif
