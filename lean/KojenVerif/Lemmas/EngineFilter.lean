import KojenVerif.Model.Engine
/-
  `filter_multiple_newlines`, and the letter counter.
-/
namespace KojenVerif
namespace Engine
open Str

/-- blank for the filter: only spaces before the newline -/
def blankL (l : Line) : Bool := pyReplace [SP] [] l == NLs

/-- reference: a blank line directly after a blank line is emptied -/
def collapseRef : Bool → List Line → List Line
  | _, [] => []
  | pb, l :: ls => (if pb && blankL l then [] else l) :: collapseRef (blankL l) ls

theorem filterNewlinesAux_eq (last : Str) (isFirst : Bool) (ls : List Line) :
    filterNewlinesAux last isFirst ls = collapseRef (!isFirst && last == NLs) ls := by
  induction ls generalizing last isFirst with
  | nil => rfl
  | cons l ls ih =>
    simp only [filterNewlinesAux, collapseRef, blankL]
    by_cases hf : (!isFirst && pyReplace [SP] [] l == last && last == NLs) = true
    · simp only [hf, if_true]
      simp only [Bool.and_eq_true, Bool.not_eq_true', beq_iff_eq] at hf
      obtain ⟨⟨h1, h2⟩, h3⟩ := hf
      rw [ih]
      simp [h1, h2, h3]
    · simp only [hf, Bool.false_eq_true, if_false]
      rw [ih]
      have hf' : (!isFirst && pyReplace [SP] [] l == last && last == NLs) = false := by simpa using hf
      have : (!isFirst && last == NLs && pyReplace [SP] [] l == NLs) = false := by
        cases hc : (!isFirst && last == NLs && pyReplace [SP] [] l == NLs) with
        | false => rfl
        | true =>
          simp only [Bool.and_eq_true, Bool.not_eq_true', beq_iff_eq] at hc
          obtain ⟨⟨h1, h2⟩, h3⟩ := hc
          have : (!isFirst && pyReplace [SP] [] l == last && last == NLs) = true := by
            simp [h1, h2, h3]
          rw [this] at hf'; cases hf'
      simp [this]

theorem filterNewlines_eq (ls : List Line) : filterNewlines ls = collapseRef false ls := by
  unfold filterNewlines
  rw [filterNewlinesAux_eq]; rfl

/-! ### the letter counter: a…z A…Z, cyclically -/

def cyc (k : Nat) : Nat := if k < 26 then 97 + k else 65 + (k - 26)

theorem nextAlpha_cyc : ∀ k, k < 52 → nextAlpha (cyc k) = cyc ((k + 1) % 52) := by decide

theorem alphaOf_eq (n : Nat) : alphaOf n = cyc (n % 52) := by
  induction n with
  | zero => rfl
  | succ n ih =>
    simp only [alphaOf, ih]
    rw [nextAlpha_cyc (n % 52) (Nat.mod_lt _ (by decide))]
    congr 1
    omega

end Engine
end KojenVerif
