import KojenVerif.Lemmas.OutStage
/-
  A whole run as it writes: the output stage (`script`) followed by the copy of the support sources
  (`cgen.FileCopyUtil` after fix 32442d3) - every file through a temporary file and a rename.  The
  run is a list of blocks; after any prefix of its operations every path that is not one of the run's
  own temporary names holds its old content or the complete content of a block that targets it.
-/
namespace KojenVerif
open Str

/-- one step of a run: make a directory, or put `chunks` at `p` through `p`'s temporary file
    (the mode bits are copied from `m`) -/
inductive Blk where
  | dir (d : Str)
  | put (p : Str) (chunks : List Str) (m : Str)
  deriving DecidableEq, Repr

/-- the operations of a `put` except the final rename -/
def putPre (p : Str) (chunks : List Str) (m : Str) : List Op :=
  [Op.openTmp (p ++ tmpSuffix)] ++ chunks.map (Op.write (p ++ tmpSuffix)) ++
    [Op.close (p ++ tmpSuffix), Op.copymode m (p ++ tmpSuffix)]

def Blk.ops : Blk → List Op
  | .dir d => [Op.mkdirs d]
  | .put p chunks m => putPre p chunks m ++ [Op.replace (p ++ tmpSuffix) p]

def prog (bs : List Blk) : List Op := (bs.map Blk.ops).flatten

/-- the blocks of the output stage -/
def stageBlocks (outdir : Str) (cm : CodeModel) : List Blk :=
  cm.flatMap (fun kv => [Blk.dir (Path.dirname (Path.join outdir kv.1)),
    Blk.put (Path.join outdir kv.1) (kv.2.map expandTabs) (Path.join outdir kv.1)])

theorem script_eq_prog (outdir : Str) (cm : CodeModel) : script outdir cm = prog (stageBlocks outdir cm) := by
  induction cm with
  | nil => rfl
  | cons kv cm ih =>
    simp only [script, List.map_cons, List.flatten_cons] at ih ⊢
    simp only [stageBlocks, List.flatMap_cons, prog, List.map_append, List.map_cons, List.map_nil, List.flatten_append,
      List.flatten_cons, List.flatten_nil, List.append_nil] at ih ⊢
    rw [ih]
    simp [entryOps, Blk.ops, putPre, List.map_map, Function.comp_def, List.append_assoc]

/-- one call of `FileCopyUtil`: target directory and (file name, source path, content) of every file -/
structure CopyCall where
  dirTo : Str
  files : List (Str × Str × Str)

def copyBlocks (c : CopyCall) : List Blk :=
  Blk.dir c.dirTo :: c.files.map (fun f => Blk.put (Path.join c.dirTo f.1) [f.2.2] f.2.1)

/-- a whole run: output stage, then the copies -/
def runBlocks (outdir : Str) (cm : CodeModel) (calls : List CopyCall) : List Blk :=
  stageBlocks outdir cm ++ calls.flatMap copyBlocks

/-! ### one `put` -/

theorem putPre_noReplace (p : Str) (chunks : List Str) (m : Str) : ∀ op ∈ putPre p chunks m, op.isReplace = false := by
  intro op hop
  simp only [putPre, List.mem_append, List.mem_cons, List.mem_map, List.not_mem_nil, or_false] at hop
  rcases hop with (h | ⟨l, _, h⟩) | (h | h) <;> (subst h; rfl)

theorem putPre_tmp (p : Str) (chunks : List Str) (m : Str) :
    ∀ op ∈ putPre p chunks m, ∀ t, op.tmpOf = some t → t = p ++ tmpSuffix := by
  intro op hop t ht
  simp only [putPre, List.mem_append, List.mem_cons, List.mem_map, List.not_mem_nil, or_false] at hop
  rcases hop with (h | ⟨l, _, h⟩) | (h | h) <;> (subst h; simp [Op.tmpOf] at ht; try exact ht.symm)

theorem putPre_take_get? (p : Str) (chunks : List Str) (m : Str) (k : Nat) (fs : FS) (q : Str) (hq : q ≠ p ++ tmpSuffix) :
    ODict.get? (execOps ((putPre p chunks m).take k) fs) q = ODict.get? fs q := by
  apply execOps_get?_other
  · intro op hop; exact putPre_noReplace p chunks m op (List.mem_of_mem_take hop)
  · intro op hop t ht e
    have := putPre_tmp p chunks m op (List.mem_of_mem_take hop) t ht
    exact hq (e ▸ this)

theorem execOps_chunks (t : Str) (chunks : List Str) (fs : FS) (prev : Str) (h : ODict.get? fs t = some prev) :
    ODict.get? (execOps (chunks.map (Op.write t)) fs) t = some (prev ++ chunks.flatten) := by
  induction chunks generalizing fs prev with
  | nil => simp [execOps, h]
  | cons c chunks ih =>
    simp only [List.map_cons, execOps, List.foldl_cons]
    have h' : ODict.get? (Op.exec fs (Op.write t c)) t = some (prev ++ c) := by
      simp [Op.exec, ODict.get?_set, h]
    have := ih _ _ h'
    simp only [execOps] at this
    rw [this]
    simp [List.append_assoc]

/-- the complete `put`: the target holds the new content, the temporary is gone, the rest is unchanged -/
theorem put_get? (p : Str) (chunks : List Str) (m : Str) (fs : FS) (q : Str) (hq : q ≠ p ++ tmpSuffix) :
    ODict.get? (execOps (Blk.put p chunks m).ops fs) q = if q = p then some chunks.flatten else ODict.get? fs q := by
  simp only [Blk.ops]
  rw [execOps_append]
  have htmp : ODict.get? (execOps (putPre p chunks m) fs) (p ++ tmpSuffix) = some chunks.flatten := by
    have e : putPre p chunks m = [Op.openTmp (p ++ tmpSuffix)] ++ (chunks.map (Op.write (p ++ tmpSuffix)) ++
        [Op.close (p ++ tmpSuffix), Op.copymode m (p ++ tmpSuffix)]) := by
      simp [putPre, List.append_assoc]
    rw [e, execOps_append, execOps_append]
    have h0 : ODict.get? (execOps [Op.openTmp (p ++ tmpSuffix)] fs) (p ++ tmpSuffix) = some [] := by
      simp [execOps, Op.exec, ODict.get?_set]
    have := execOps_chunks (p ++ tmpSuffix) chunks _ [] h0
    simp only [List.nil_append] at this
    simp [execOps, Op.exec, this] at this ⊢
  have hpre := putPre_take_get? p chunks m (putPre p chunks m).length fs q hq
  rw [List.take_length] at hpre
  simp only [execOps, List.foldl_cons, List.foldl_nil, Op.exec]
  simp only [execOps] at htmp hpre
  rw [htmp]
  simp only
  rw [FS.get?_erase, ODict.get?_set]
  have hq' : ¬ p ++ tmpSuffix = q := fun e => hq e.symm
  simp only [hq', if_false]
  by_cases hqp : q = p
  · subst hqp; simp
  · have : ¬ p = q := fun e => hqp e.symm
    simp [hqp, this, hpre]

/-! ### the run -/

/-- `q` holds its old content or the complete content of a block of the run that targets it -/
def SafeB (all : List Blk) (fs₀ fs : FS) (q : Str) : Prop :=
  ODict.get? fs q = ODict.get? fs₀ q ∨
    ∃ p chunks m, Blk.put p chunks m ∈ all ∧ p = q ∧ ODict.get? fs q = some chunks.flatten

/-- `q` is not one of the run's temporary names -/
def NotTmpB (all : List Blk) (q : Str) : Prop := ∀ p chunks m, Blk.put p chunks m ∈ all → q ≠ p ++ tmpSuffix

theorem take_prog_cons (b : Blk) (bs : List Blk) (k : Nat) :
    (prog (b :: bs)).take k = if k < b.ops.length then b.ops.take k else b.ops ++ (prog bs).take (k - b.ops.length) := by
  simp only [prog, List.map_cons, List.flatten_cons]
  rw [List.take_append]
  split
  · rename_i h
    have : k - b.ops.length = 0 := by omega
    simp [this]
  · rename_i h
    have : b.ops.length ≤ k := by omega
    rw [List.take_of_length_le this]

/-- **Prefix safety of a whole run.** -/
theorem prog_prefix_safe (all : List Blk) (fs₀ : FS) (bs : List Blk) (hsub : ∀ b ∈ bs, b ∈ all) (fs : FS)
    (hfs : ∀ q, NotTmpB all q → SafeB all fs₀ fs q) (k : Nat) (q : Str) (hq : NotTmpB all q) :
    SafeB all fs₀ (execOps ((prog bs).take k) fs) q := by
  induction bs generalizing fs k with
  | nil => simpa [prog, execOps] using hfs q hq
  | cons b bs ih =>
    have hb : b ∈ all := hsub b (by simp)
    rw [take_prog_cons]
    cases b with
    | dir d =>
      split
      · rename_i hlt
        have : k = 0 := by simp only [Blk.ops, List.length_cons, List.length_nil] at hlt; omega
        subst this
        simpa [execOps] using hfs q hq
      · rw [execOps_append]
        apply ih (fun x hx => hsub x (by simp [hx]))
        intro q' hq'
        simpa [Blk.ops, execOps, Op.exec] using hfs q' hq'
    | put p chunks m =>
      have hqt : q ≠ p ++ tmpSuffix := hq p chunks m hb
      split
      · rename_i hlt
        simp only [Blk.ops] at hlt ⊢
        have hk : k ≤ (putPre p chunks m).length := by
          simp only [List.length_append, List.length_cons, List.length_nil] at hlt; omega
        rw [List.take_append_of_le_length hk]
        have := putPre_take_get? p chunks m k fs q hqt
        unfold SafeB
        rw [this]
        exact hfs q hq
      · rw [execOps_append]
        apply ih (fun x hx => hsub x (by simp [hx]))
        intro q' hq'
        have hq't : q' ≠ p ++ tmpSuffix := hq' p chunks m hb
        unfold SafeB
        rw [put_get? _ _ _ _ _ hq't]
        by_cases hqp : q' = p
        · right
          exact ⟨p, chunks, m, hb, hqp.symm, by simp [hqp]⟩
        · simp only [hqp, if_false]
          exact hfs q' hq'

theorem prog_tmp (bs : List Blk) :
    ∀ op ∈ prog bs, ∀ t, op.tmpOf = some t → ∃ p chunks m, Blk.put p chunks m ∈ bs ∧ t = p ++ tmpSuffix := by
  intro op hop t ht
  simp only [prog, List.mem_flatten, List.mem_map] at hop
  obtain ⟨ops, ⟨b, hb, rfl⟩, hop⟩ := hop
  cases b with
  | dir d =>
    simp only [Blk.ops, List.mem_singleton] at hop
    subst hop
    simp [Op.tmpOf] at ht
  | put p chunks m =>
    refine ⟨p, chunks, m, hb, ?_⟩
    simp only [Blk.ops, List.mem_append, List.mem_singleton] at hop
    rcases hop with h | h
    · exact putPre_tmp _ _ _ op h t ht
    · subst h; simp [Op.tmpOf] at ht; exact ht.symm

/-- **process death at any operation of a whole run** -/
theorem run_crash_safe (bs : List Blk) (fs₀ : FS) (k cut : Nat) (q : Str) (hq : NotTmpB bs q) :
    SafeB bs fs₀ (crashAt (prog bs) k cut fs₀) q := by
  have base := prog_prefix_safe bs fs₀ bs (fun _ h => h) fs₀ (fun _ _ => Or.inl rfl) k q hq
  unfold crashAt
  cases hlast : ((prog bs).take k).getLast? with
  | none => simpa [hlast] using base
  | some op =>
    cases op with
    | write t s =>
      simp only
      have hmem : Op.write t s ∈ prog bs := List.mem_of_mem_take (List.mem_of_getLast? hlast)
      obtain ⟨p, chunks, m, hb, ht⟩ := prog_tmp bs _ hmem t rfl
      have hne : ¬ t = q := fun e => hq p chunks m hb (e ▸ ht)
      unfold SafeB at base ⊢
      rw [ODict.get?_set]
      simp only [hne, if_false]
      exact base
    | mkdirs d => simpa using base
    | openTmp t => simpa using base
    | close t => simpa using base
    | copymode p t => simpa using base
    | replace t p => simpa using base

/-- **raised error at any operation of a whole run** (the handler removes the temporary file) -/
theorem run_error_safe (bs : List Blk) (fs₀ : FS) (k : Nat) (q : Str) (hq : NotTmpB bs q) :
    SafeB bs fs₀ (errorAt (prog bs) k fs₀) q := by
  have base := prog_prefix_safe bs fs₀ bs (fun _ h => h) fs₀ (fun _ _ => Or.inl rfl) k q hq
  unfold errorAt
  cases hop : (prog bs)[k]? with
  | none => simpa [hop] using base
  | some op =>
    have hmem : op ∈ prog bs := List.mem_of_getElem? hop
    have key : ∀ t, op.tmpOf = some t → SafeB bs fs₀ (FS.erase (execOps ((prog bs).take k) fs₀) t) q := by
      intro t ht
      obtain ⟨p, chunks, m, hb, htt⟩ := prog_tmp bs op hmem t ht
      have hne : ¬ t = q := fun e => hq p chunks m hb (e ▸ htt)
      unfold SafeB at base ⊢
      rw [FS.get?_erase]
      simp only [hne, if_false]
      exact base
    cases op with
    | mkdirs d => simpa using base
    | openTmp t => exact key t rfl
    | write t s => exact key t rfl
    | close t => exact key t rfl
    | copymode p t => exact key t rfl
    | replace t p => exact key t rfl

end KojenVerif
