import KojenVerif.Model.UmlInc
import KojenVerif.Lemmas.Uml
/-
  Include lines are namespace-faithful: the path written for a referenced type is the place where the
  generator puts that type's header — relative to the including file's folder when the type lives in
  (a sub-namespace of) the holder's namespace, relative to the output root otherwise.
-/
namespace KojenVerif
namespace Uml
open Str

/-- `"A/B/"` -/
def joinDirs (comps : List Str) : Str := (comps.map (· ++ [47])).flatten

theorem joinDirs_append (a b : List Str) : joinDirs (a ++ b) = joinDirs a ++ joinDirs b := by
  simp [joinDirs]

/-- `hns` is a proper prefix of `full`, component by component -/
def compPrefix : List Str → List Str → Bool
  | [], r => !r.isEmpty
  | _ :: _, [] => false
  | h :: hs, x :: xs => h == x && compPrefix hs xs

theorem compPrefix_split (hns full : List Str) (h : compPrefix hns full = true) :
    ∃ rest, rest ≠ [] ∧ full = hns ++ rest := by
  induction hns generalizing full with
  | nil =>
    cases full with
    | nil => simp [compPrefix] at h
    | cons x xs => exact ⟨x :: xs, by simp, rfl⟩
  | cons a hs ih =>
    cases full with
    | nil => simp [compPrefix] at h
    | cons x xs =>
      simp only [compPrefix, Bool.and_eq_true, beq_iff_eq] at h
      obtain ⟨rest, hne, e⟩ := ih xs h.2
      exact ⟨rest, hne, by rw [h.1, e]; rfl⟩

theorem prefix_sep (h x p q : Str) (hh : NoChar 58 h) (hx : NoChar 58 x) :
    isPrefixB (h ++ 58 :: p) (x ++ 58 :: q) = (h == x && isPrefixB p q) := by
  induction h generalizing x with
  | nil =>
    cases x with
    | nil => simp [isPrefixB]
    | cons c x' =>
      have hc : c ≠ 58 := hx c (by simp)
      have : (58 == c) = false := by simpa using fun e : 58 = c => hc e.symm
      simp [isPrefixB, this]
  | cons a h' ih =>
    have ha : a ≠ 58 := hh a (by simp)
    cases x with
    | nil =>
      have : (a == 58) = false := by simpa using ha
      simp [isPrefixB, this]
    | cons c x' =>
      simp only [List.cons_append, isPrefixB]
      rw [ih x' (fun y hy => hh y (by simp [hy])) (fun y hy => hx y (by simp [hy]))]
      by_cases hac : a = c
      · subst hac; simp
      · have : (a == c) = false := by simpa using hac
        simp [this, hac]

theorem prefix_nosep (h p x : Str) (hx : NoChar 58 x) : isPrefixB (h ++ 58 :: p) x = false := by
  induction h generalizing x with
  | nil =>
    cases x with
    | nil => simp [isPrefixB]
    | cons c x' =>
      have hc : c ≠ 58 := hx c (by simp)
      have : (58 == c) = false := by simpa using fun e : 58 = c => hc e.symm
      simp [isPrefixB, this]
  | cons a h' ih =>
    cases x with
    | nil => simp [isPrefixB]
    | cons c x' =>
      simp only [List.cons_append, isPrefixB]
      rw [ih x' (fun y hy => hx y (by simp [hy]))]
      simp

theorem joinNs_cons2 (c d : Str) (r : List Str) : joinNs (c :: d :: r) = c ++ 58 :: 58 :: joinNs (d :: r) := by
  simp [joinNs, S_cc]

/-- **`f.startswith(ns + "::")`** on names built from components -/
theorem startswith_ns (hns full : List Str) (hne : hns ≠ []) (hfull : full ≠ [])
    (hh : ∀ c ∈ hns, NoChar 58 c) (hf : ∀ c ∈ full, NoChar 58 c) :
    isPrefixB (joinNs hns ++ S "::") (joinNs full) = compPrefix hns full := by
  rw [S_cc]
  induction hns generalizing full with
  | nil => exact absurd rfl hne
  | cons h hs ih =>
    have hh0 := hh h (by simp)
    cases full with
    | nil => exact absurd rfl hfull
    | cons x xs =>
      have hx0 := hf x (by simp)
      cases hs with
      | nil =>
        cases xs with
        | nil =>
          simp only [joinNs, compPrefix, List.isEmpty_nil, Bool.not_true, Bool.and_false]
          exact prefix_nosep h [58] x hx0
        | cons y r =>
          rw [joinNs_cons2]
          simp only [joinNs, compPrefix, List.isEmpty_cons, Bool.not_false, Bool.and_true]
          rw [prefix_sep h x [58] _ hh0 hx0]
          simp [isPrefixB]
      | cons h2 hs' =>
        cases xs with
        | nil =>
          rw [joinNs_cons2]
          simp only [joinNs, compPrefix, Bool.and_false]
          have : h ++ 58 :: 58 :: joinNs (h2 :: hs') ++ 58 :: [58] = h ++ 58 :: (58 :: joinNs (h2 :: hs') ++ 58 :: [58]) := by simp
          rw [this]
          exact prefix_nosep h _ x hx0
        | cons y r =>
          rw [joinNs_cons2, joinNs_cons2]
          have : h ++ 58 :: 58 :: joinNs (h2 :: hs') ++ 58 :: [58] = h ++ 58 :: (58 :: (joinNs (h2 :: hs') ++ 58 :: [58])) := by simp
          rw [this, prefix_sep h x _ _ hh0 hx0]
          simp only [isPrefixB, beq_self_eq_true, Bool.true_and]
          rw [ih (y :: r) (by simp) (by simp) (fun c hc => hh c (by simp [hc])) (fun c hc => hf c (by simp [hc]))]
          simp only [compPrefix]

theorem joinNs_append (a b : List Str) (ha : a ≠ []) (hb : b ≠ []) :
    joinNs (a ++ b) = joinNs a ++ S "::" ++ joinNs b := by
  induction a with
  | nil => exact absurd rfl ha
  | cons c cs ih =>
    cases cs with
    | nil =>
      cases b with
      | nil => exact absurd rfl hb
      | cons d r => simp [joinNs]
    | cons c2 cs' =>
      have := ih (by simp)
      simp only [List.cons_append] at this ⊢
      rw [show joinNs (c :: c2 :: (cs' ++ b)) = c ++ S "::" ++ joinNs (c2 :: (cs' ++ b)) by simp [joinNs], this]
      simp [joinNs]

theorem joinNs_ne_nil (a : List Str) (ha : a ≠ []) (hne : ∀ c ∈ a, c ≠ []) : joinNs a ≠ [] := by
  cases a with
  | nil => exact absurd rfl ha
  | cons c cs =>
    have hc := hne c (by simp)
    cases cs with
    | nil => simpa [joinNs] using hc
    | cons d r => simp [joinNs, hc]

/-- the components that remain after the holder's own namespace has been removed -/
def relComps (hns tns : List Str) (name : Str) : List Str :=
  if !hns.isEmpty && compPrefix hns (tns ++ [name]) then (tns ++ [name]).drop hns.length else tns ++ [name]

theorem stripOwn_comps (hns tns : List Str) (name : Str)
    (hh : ∀ c ∈ hns, NoChar 58 c ∧ c ≠ []) (ht : ∀ c ∈ tns ++ [name], NoChar 58 c) :
    stripOwn (joinNs (tns ++ [name])) (joinNs hns) = joinNs (relComps hns tns name) := by
  unfold stripOwn relComps
  cases hns with
  | nil => simp [joinNs]
  | cons h hs =>
    have hne : joinNs (h :: hs) ≠ [] := joinNs_ne_nil _ (by simp) (fun c hc => (hh c hc).2)
    have he : (joinNs (h :: hs)).isEmpty = false := by
      cases hj : joinNs (h :: hs) with
      | nil => exact absurd hj hne
      | cons a b => rfl
    rw [startswith_ns (h :: hs) (tns ++ [name]) (by simp) (by simp) (fun c hc => (hh c hc).1) ht]
    simp only [he, Bool.not_false, Bool.true_and, List.isEmpty_cons]
    cases hp : compPrefix (h :: hs) (tns ++ [name]) with
    | false => simp
    | true =>
      obtain ⟨rest, hrne, e⟩ := compPrefix_split _ _ hp
      simp only [if_true]
      rw [e, joinNs_append (h :: hs) rest (by simp) hrne]
      have : (joinNs (h :: hs) ++ S "::" ++ joinNs rest).drop ((joinNs (h :: hs)).length + 2) = joinNs rest := by
        have hl : (joinNs (h :: hs) ++ S "::").length = (joinNs (h :: hs)).length + 2 := by simp [S_cc]
        rw [← hl, List.drop_left]
      rw [this]
      simp

/-- the qualification in front of the last component, and the last component -/
theorem splitQual_comps (init : List Str) (name : Str) (hi : ∀ c ∈ init ++ [name], NoChar 58 c) :
    splitQual (joinNs (init ++ [name])) = ((if init.isEmpty then [] else joinNs init ++ S "::"), name) := by
  unfold splitQual
  rw [split_joinNs (init ++ [name]) (by simp) hi]
  simp only [List.getLast?_append, List.getLast?_singleton, Option.some_or, Option.getD_some]
  cases init with
  | nil => simp [joinNs]
  | cons c cs =>
    rw [joinNs_append (c :: cs) [name] (by simp) (by simp)]
    have hj : joinNs [name] = name := rfl
    rw [hj]
    have hl : (joinNs (c :: cs) ++ S "::" ++ name).length - name.length = (joinNs (c :: cs) ++ S "::").length := by
      simp only [List.length_append]; omega
    rw [hl, List.take_left]
    simp

theorem replace_dirs (init : List Str) (hne : init ≠ []) (hi : ∀ c ∈ init, NoChar 58 c) :
    pyReplace (S "::") (S "/") (joinNs init ++ S "::") = joinDirs init := by
  -- `joinNs init ++ "::"` is `joinNs (init ++ [""])`
  have e : joinNs init ++ S "::" = joinNs (init ++ [[]]) := by
    rw [joinNs_append init [[]] hne (by simp)]; simp [joinNs]
  rw [e, folder_chain (init ++ [[]]) (by
    intro c hc
    simp only [List.mem_append, List.mem_singleton] at hc
    rcases hc with h | h
    · exact hi c h
    · subst h; intro x hx; cases hx)]
  -- joinPath (init ++ [""]) = every component followed by '/'
  induction init with
  | nil => exact absurd rfl hne
  | cons c cs ih =>
    cases cs with
    | nil => simp [joinPath, joinDirs]
    | cons d r =>
      have := ih (by simp) (fun x hx => hi x (by simp [hx])) (by
        rw [joinNs_append (d :: r) [[]] (by simp) (by simp)]; simp [joinNs])
      simp only [List.cons_append, joinPath, joinDirs, List.map_cons, List.flatten_cons] at this ⊢
      rw [this]

/-- **one include entry, by components** -/
theorem incEntry_comps (hns tns : List Str) (name : Str)
    (hh : ∀ c ∈ hns, NoChar 58 c ∧ c ≠ []) (ht : ∀ c ∈ tns ++ [name], NoChar 58 c) :
    incEntry (joinNs hns) (joinNs (tns ++ [name])) =
      (joinDirs ((relComps hns tns name).dropLast), name) := by
  unfold incEntry
  rw [stripOwn_comps hns tns name hh ht]
  -- the remaining components still end in `name`
  have hrel : ∃ init, relComps hns tns name = init ++ [name] ∧ ∀ c ∈ init ++ [name], NoChar 58 c := by
    unfold relComps
    split
    · rename_i hc
      simp only [Bool.and_eq_true] at hc
      obtain ⟨rest, hrne, e⟩ := compPrefix_split _ _ hc.2
      rw [e, List.drop_left]
      -- rest is a non-empty suffix of tns ++ [name]
      have hlast : rest.getLast? = some name := by
        have := congrArg List.getLast? e
        simp only [List.getLast?_append, List.getLast?_singleton, Option.some_or] at this
        cases hr : rest.getLast? with
        | none => rw [List.getLast?_eq_none_iff] at hr; exact absurd hr hrne
        | some x => rw [hr] at this; simp at this; rw [this]
      obtain ⟨init, hi⟩ : ∃ init, rest = init ++ [name] := by
        rcases List.eq_nil_or_concat rest with h0 | ⟨L, b, hb⟩
        · exact absurd h0 hrne
        · refine ⟨L, ?_⟩
          rw [hb] at hlast
          simp only [List.concat_eq_append, List.getLast?_append, List.getLast?_singleton, Option.some_or, Option.some.injEq] at hlast
          rw [hb, hlast]; simp
      refine ⟨init, hi, ?_⟩
      intro c hc'
      apply ht
      rw [e, hi]
      exact List.mem_append_right _ hc'
    · exact ⟨tns, rfl, ht⟩
  obtain ⟨init, hinit, hnc⟩ := hrel
  rw [hinit, splitQual_comps init name hnc]
  simp only [List.dropLast_concat]
  cases init with
  | nil =>
    have : pyReplace (S "::") (S "/") [] = [] := by decide
    simp [joinDirs, this]
  | cons c cs =>
    simp only [List.isEmpty_cons, Bool.false_eq_true, if_false]
    rw [replace_dirs (c :: cs) (by simp) (fun x hx => hnc x (List.mem_append_left _ hx))]

theorem joinPath_dirs (comps : List Str) (hne : comps ≠ []) : joinPath comps ++ [47] = joinDirs comps := by
  induction comps with
  | nil => exact absurd rfl hne
  | cons c cs ih =>
    cases cs with
    | nil => simp [joinPath, joinDirs]
    | cons d r =>
      have := ih (by simp)
      simp only [joinPath, joinDirs, List.map_cons, List.flatten_cons, List.append_assoc] at this ⊢
      rw [this]

theorem joinPath_last (comps : List Str) (hne : comps ≠ []) (h : ∀ c ∈ comps, c ≠ [] ∧ NoChar 47 c) :
    joinPath comps ≠ [] ∧ (joinPath comps).getLast? ≠ some 47 := by
  induction comps with
  | nil => exact absurd rfl hne
  | cons c cs ih =>
    have hc := h c (by simp)
    cases cs with
    | nil =>
      simp only [joinPath]
      refine ⟨hc.1, ?_⟩
      intro e
      exact hc.2 47 (List.mem_of_getLast? e) rfl
    | cons d r =>
      have := ih (by simp) (fun x hx => h x (by simp [hx]))
      simp only [joinPath]
      refine ⟨by simp, ?_⟩
      have e : (c ++ [47] ++ joinPath (d :: r)).getLast? = (joinPath (d :: r)).getLast? := by
        rw [List.getLast?_append]
        cases hj : (joinPath (d :: r)).getLast? with
        | none => rw [List.getLast?_eq_none_iff] at hj; exact absurd hj this.1
        | some x => simp
      rw [e]
      exact this.2

/-- where the generator puts the header of a type of namespace `tns` (folders on) -/
theorem placed_header (tns : List Str) (fname : Str) (h : ∀ c ∈ tns, c ≠ [] ∧ NoChar 47 c ∧ NoChar 58 c) :
    placed true (joinNs tns) fname = joinDirs tns ++ fname := by
  cases tns with
  | nil => exact placed_no_package fname true
  | cons c cs =>
    have hl := joinPath_last (c :: cs) (by simp) (fun x hx => ⟨(h x hx).1, (h x hx).2.1⟩)
    have hf := folder_chain (c :: cs) (fun x hx => (h x hx).2.2)
    rw [placed_folders (joinNs (c :: cs)) fname (by rw [hf]; exact hl.1) (by rw [hf]; exact hl.2), hf,
      joinPath_dirs (c :: cs) (by simp)]

theorem isPrefixB_eq (p f : Str) (h : isPrefixB p f = true) : f = p ++ f.drop p.length := by
  induction p generalizing f with
  | nil => simp
  | cons a p ih =>
    cases f with
    | nil => simp [isPrefixB] at h
    | cons c f =>
      simp only [isPrefixB, Bool.and_eq_true, beq_iff_eq] at h
      rw [h.1]
      simp only [List.length_cons, List.drop_succ_cons, List.cons_append, List.cons.injEq, true_and]
      exact ih f h.2

/-- **own namespace as a leading qualification only** (fix 64466e3): whatever the names, `StripOwnNamespace`
    either leaves the type as it is or removes exactly the leading `ns::` -/
theorem stripOwn_prefix_only (f ns : Str) : stripOwn f ns = f ∨ (ns ≠ [] ∧ f = ns ++ S "::" ++ stripOwn f ns) := by
  unfold stripOwn
  split
  · rename_i h
    simp only [Bool.and_eq_true, Bool.not_eq_true'] at h
    right
    refine ⟨by intro e; rw [e] at h; simp at h, ?_⟩
    have := isPrefixB_eq _ _ h.2
    have hl : (ns ++ S "::").length = ns.length + 2 := by simp [S_cc]
    rw [hl] at this
    exact this
  · exact Or.inl rfl

/-- is the referenced type inside (a sub-namespace of) the holder's own namespace -/
def inOwn (hns tns : List Str) (name : Str) : Bool := !hns.isEmpty && compPrefix hns (tns ++ [name])

/-- **Includes are namespace-faithful.**  With namespace folders on, the path a header writes for a type it
    needs complete is the place of that type's own header: seen from the including file's folder when the type
    lives in (a sub-namespace of) the holder's namespace, seen from the output root otherwise. -/
theorem include_is_placement (hns tns : List Str) (name : Str)
    (hh : ∀ c ∈ hns, NoChar 58 c ∧ c ≠ []) (ht : ∀ c ∈ tns, c ≠ [] ∧ NoChar 47 c ∧ NoChar 58 c) (hn : NoChar 58 name) :
    placed true (joinNs tns) (name ++ S ".h") =
      (if inOwn hns tns name then joinDirs hns else []) ++
        (incEntry (joinNs hns) (joinNs (tns ++ [name]))).1 ++ (incEntry (joinNs hns) (joinNs (tns ++ [name]))).2 ++ S ".h" := by
  have htn : ∀ c ∈ tns ++ [name], NoChar 58 c := by
    intro c hc
    simp only [List.mem_append, List.mem_singleton] at hc
    rcases hc with h | h
    · exact (ht c h).2.2
    · subst h; exact hn
  rw [incEntry_comps hns tns name hh htn, placed_header tns _ ht]
  unfold inOwn relComps
  cases hc : (!hns.isEmpty && compPrefix hns (tns ++ [name])) with
  | false => simp
  | true =>
    simp only [Bool.and_eq_true] at hc
    obtain ⟨rest, hrne, e⟩ := compPrefix_split _ _ hc.2
    simp only [if_true]
    -- rest ends in name; tns = hns ++ rest.dropLast
    rcases List.eq_nil_or_concat rest with h0 | ⟨L, b, hb⟩
    · exact absurd h0 hrne
    · have hlast := congrArg List.getLast? e
      simp only [hb, List.concat_eq_append, List.getLast?_append, List.getLast?_singleton, Option.some_or, Option.some.injEq] at hlast
      subst hlast
      have htns : tns = hns ++ L := by
        have e2 : tns ++ [name] = (hns ++ L) ++ [name] := by rw [e, hb]; simp
        exact List.append_cancel_right e2
      rw [e, List.drop_left, hb]
      simp only [List.concat_eq_append, List.dropLast_concat]
      rw [htns, joinDirs_append]
      simp

end Uml
end KojenVerif
