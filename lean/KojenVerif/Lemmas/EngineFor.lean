import KojenVerif.Lemmas.EngineIf
import KojenVerif.Lemmas.EngineInner
import KojenVerif.Lemmas.EngineFilter
/-
  `innerexpand_for_loop`: what the double loop over items and body lines computes.
-/
namespace KojenVerif
namespace Engine
open Str

def isFirstL (l : Line) : Bool := hasSpecificTag l (T "<<<FIRST>>>")
def isLastL (l : Line) : Bool := hasSpecificTag l (T "<<<LAST>>>")
def isRestL (l : Line) : Bool := !isFirstL l && !isLastL l

def eachChain (idx : Nat) (item : Str) : List (Str × Str) :=
  [ (T "<<<EACH>>>", strip item), (T "<<<each>>>", camelSmall (strip item)),
    (T "<<<NUM>>>", natToStr idx), (T "<<<ALPH>>>", [alphaOf idx]) ]

abbrev FSt := Option Line × Option Line × List Line

/-- the body of the inner loop -/
def forLine (first0 last0 : Str) (p : Nat × Str) (st : FSt) (l : Line) : FSt :=
  if isFirstL l && st.1.isNone then (some (pyReplace (T "<<<FIRST>>>") first0 l), st.2.1, st.2.2)
  else if isLastL l && st.2.1.isNone then (st.1, some (pyReplace (T "<<<LAST>>>") last0 l), st.2.2)
  else if !isFirstL l && !isLastL l then (st.1, st.2.1, st.2.2 ++ [applySubst (eachChain p.1 p.2) l])
  else st

/-- no body line carries both FIRST and LAST -/
def NoBoth (snippet : List Line) : Prop := ∀ l ∈ snippet, ¬ (isFirstL l = true ∧ isLastL l = true)

theorem inner_fold (first0 last0 : Str) (p : Nat × Str) (snippet : List Line) (hnb : NoBoth snippet) (st : FSt) :
    snippet.foldl (forLine first0 last0 p) st =
      ( st.1.orElse (fun _ => (snippet.find? isFirstL).map (pyReplace (T "<<<FIRST>>>") first0)),
        st.2.1.orElse (fun _ => (snippet.find? isLastL).map (pyReplace (T "<<<LAST>>>") last0)),
        st.2.2 ++ (snippet.filter isRestL).map (applySubst (eachChain p.1 p.2)) ) := by
  induction snippet generalizing st with
  | nil => obtain ⟨a, b, c⟩ := st; cases a <;> cases b <;> simp
  | cons l ls ih =>
    have hl := hnb l (by simp)
    have hls : NoBoth ls := fun x hx => hnb x (by simp [hx])
    obtain ⟨a, b, c⟩ := st
    simp only [List.foldl_cons]
    rw [ih hls]
    by_cases hf : isFirstL l = true
    · have hla : isLastL l = false := by
        cases h : isLastL l with
        | false => rfl
        | true => exact absurd ⟨hf, h⟩ hl
      cases a with
      | none => simp [forLine, hf, hla, isRestL, List.find?_cons, List.filter_cons]
      | some a0 => simp [forLine, hf, hla, isRestL, List.find?_cons, List.filter_cons]
    · have hf' : isFirstL l = false := by simpa using hf
      by_cases hla : isLastL l = true
      · cases b with
        | none => simp [forLine, hf', hla, isRestL, List.find?_cons, List.filter_cons]
        | some b0 => simp [forLine, hf', hla, isRestL, List.find?_cons, List.filter_cons]
      · have hla' : isLastL l = false := by simpa using hla
        simp [forLine, hf', hla', isRestL, List.find?_cons, List.filter_cons]

theorem outer_fold (first0 last0 : Str) (snippet : List Line) (hnb : NoBoth snippet) (ps : List (Nat × Str)) (st : FSt) (hne : ps ≠ []) :
    ps.foldl (fun st p => snippet.foldl (forLine first0 last0 p) st) st =
      ( st.1.orElse (fun _ => (snippet.find? isFirstL).map (pyReplace (T "<<<FIRST>>>") first0)),
        st.2.1.orElse (fun _ => (snippet.find? isLastL).map (pyReplace (T "<<<LAST>>>") last0)),
        st.2.2 ++ (ps.map (fun p => (snippet.filter isRestL).map (applySubst (eachChain p.1 p.2)))).flatten ) := by
  induction ps generalizing st with
  | nil => exact absurd rfl hne
  | cons p ps ih =>
    simp only [List.foldl_cons]
    rw [inner_fold first0 last0 p snippet hnb st]
    cases ps with
    | nil => simp
    | cons q qs =>
      rw [ih _ (by simp)]
      obtain ⟨a, b, c⟩ := st
      cases a <;> cases b <;> simp <;>
        (first | rfl | (cases (snippet.find? isFirstL) <;> cases (snippet.find? isLastL) <;> simp))

theorem splitAllAux_ne_nil (sep : Str) (k : Nat) (s cur : Str) : splitAllAux sep k s cur ≠ [] := by
  induction s generalizing k cur with
  | nil => simp [splitAllAux]
  | cons c cs ih =>
    cases k with
    | zero =>
      simp only [splitAllAux]
      split
      · simp
      · exact ih 0 _
    | succ k => simp only [splitAllAux]; exact ih k cur

theorem splitAll_ne_nil (sep s : Str) : splitAll sep s ≠ [] := by
  unfold splitAll
  split
  · simp
  · exact splitAllAux_ne_nil sep 0 s []

theorem enumFrom_ne_nil {α} (k : Nat) (l : List α) (h : l ≠ []) : enumFrom k l ≠ [] := by
  cases l with
  | nil => exact absurd rfl h
  | cons a l => simp [enumFrom]

/-- the items of a FOR parameter, as `__process` splits them -/
def forItems (csv : Str) : List Str := splitAll COMMA (rstripChars COMMA (lstripChars COMMA (strip csv)))

/-- **`__process`**: the first FIRST-line once (FIRST replaced by the first item), then for every
    item in order every other line (EACH / each / NUM / ALPH replaced), then the first LAST-line
    once (LAST replaced by the last item). -/
theorem forProcess_eq (csv : Str) (snippet : List Line) (hnb : NoBoth snippet)
    (hnz : ∀ l ∈ snippet, ∀ v, pyReplace (T "<<<FIRST>>>") v l ≠ [] ∧ pyReplace (T "<<<LAST>>>") v l ≠ []) :
    forProcess csv snippet =
      ((snippet.find? isFirstL).map (pyReplace (T "<<<FIRST>>>") (strip ((forItems csv).head?.getD [])))).toList ++
      ((enumFrom 0 (forItems csv)).map (fun p => (snippet.filter isRestL).map (applySubst (eachChain p.1 p.2)))).flatten ++
      ((snippet.find? isLastL).map (pyReplace (T "<<<LAST>>>") (strip ((forItems csv).getLast?.getD [])))).toList := by
  unfold forProcess
  have hfold : ∀ (first0 last0 : Str) (ps : List (Nat × Str)) (st : FSt),
      ps.foldl (fun st p => snippet.foldl (fun st l =>
        if hasSpecificTag l (T "<<<FIRST>>>") && st.1.isNone then (some (pyReplace (T "<<<FIRST>>>") first0 l), st.2.1, st.2.2)
        else if hasSpecificTag l (T "<<<LAST>>>") && st.2.1.isNone then (st.1, some (pyReplace (T "<<<LAST>>>") last0 l), st.2.2)
        else if !hasSpecificTag l (T "<<<FIRST>>>") && !hasSpecificTag l (T "<<<LAST>>>") then
          (st.1, st.2.1, st.2.2 ++ [applySubst
            [ (T "<<<EACH>>>", strip p.2), (T "<<<each>>>", camelSmall (strip p.2)),
              (T "<<<NUM>>>", natToStr p.1), (T "<<<ALPH>>>", [alphaOf p.1]) ] l])
        else st) st) st
      = ps.foldl (fun st p => snippet.foldl (forLine first0 last0 p) st) st := by
    intro first0 last0 ps st
    rfl
  simp only [hfold]
  have hne : enumFrom 0 (forItems csv) ≠ [] := enumFrom_ne_nil 0 _ (splitAll_ne_nil _ _)
  have e : splitAll COMMA (rstripChars COMMA (lstripChars COMMA (strip csv))) = forItems csv := rfl
  simp only [e]
  rw [outer_fold _ _ snippet hnb _ (none, none, []) hne]
  simp only [Option.orElse, List.nil_append]
  cases hF : snippet.find? isFirstL with
  | none =>
    cases hL : snippet.find? isLastL with
    | none => simp
    | some l =>
      have hl : l ∈ snippet := List.mem_of_find?_eq_some hL
      have := (hnz l hl (strip ((forItems csv).getLast?.getD []))).2
      have hem : (pyReplace (T "<<<LAST>>>") (strip ((forItems csv).getLast?.getD [])) l).isEmpty = false := by
        cases h : pyReplace (T "<<<LAST>>>") (strip ((forItems csv).getLast?.getD [])) l with
        | nil => exact absurd h this
        | cons a b => rfl
      simp [hem]
  | some f =>
    have hf : f ∈ snippet := List.mem_of_find?_eq_some hF
    have hfz := (hnz f hf (strip ((forItems csv).head?.getD []))).1
    have hemf : (pyReplace (T "<<<FIRST>>>") (strip ((forItems csv).head?.getD [])) f).isEmpty = false := by
      cases h : pyReplace (T "<<<FIRST>>>") (strip ((forItems csv).head?.getD [])) f with
      | nil => exact absurd h hfz
      | cons a b => rfl
    cases hL : snippet.find? isLastL with
    | none => simp [hemf]
    | some l =>
      have hl : l ∈ snippet := List.mem_of_find?_eq_some hL
      have := (hnz l hl (strip ((forItems csv).getLast?.getD []))).2
      have hem : (pyReplace (T "<<<LAST>>>") (strip ((forItems csv).getLast?.getD [])) l).isEmpty = false := by
        cases h : pyReplace (T "<<<LAST>>>") (strip ((forItems csv).getLast?.getD [])) l with
        | nil => exact absurd h this
        | cons a b => rfl
      simp [hemf, hem]

end Engine
end KojenVerif

namespace KojenVerif
namespace Engine
open Str

theorem T_FORB : T "FOR_BEGIN=" = [70, 79, 82, 95, 66, 69, 71, 73, 78, 61] := by decide

theorem split_FORB (raw : Str) : splitOnce EQ (T "FOR_BEGIN=" ++ raw) = (T "FOR_BEGIN", some raw) := by
  rw [T_FORB]
  have : T "FOR_BEGIN" = [70, 79, 82, 95, 66, 69, 71, 73, 78] := by decide
  rw [this]
  simp [splitOnce, find, isPrefixB, EQ]

theorem contains_eq_FORB (raw : Str) : contains EQ (T "FOR_BEGIN=" ++ raw) = true := by
  rw [T_FORB]
  simp [contains, isPrefixB, EQ]

/-- the parameter the pair expander hands to `innerexpand_for_loop` for `<<<FOR_BEGIN=raw>>>` -/
theorem blockParam_for (ws raw : Str) (hw : Clean ws) (hr : Clean raw) :
    blockParam (Spec.delim ws (T "FOR_BEGIN=" ++ raw)) = raw := by
  have hb : Clean (T "FOR_BEGIN=" ++ raw) := (by decide : Clean (T "FOR_BEGIN=")).append hr
  unfold blockParam
  have hd : hasDefault (Spec.delim ws (T "FOR_BEGIN=" ++ raw)) = true := by
    unfold hasDefault
    rw [tagBodies_delim ws _ hw hb]
    simp [contains_eq_FORB]
  rw [hd, if_pos rfl, extract_delim ws _ EQ hw hb, split_FORB]
  rfl

/-- the keys of the per-item chain without brackets -/
def eachKeys (idx : Nat) (item : Str) : List (Str × Str) :=
  [ (T "EACH", strip item), (T "each", camelSmall (strip item)), (T "NUM", natToStr idx), (T "ALPH", [alphaOf idx]) ]

theorem eachChain_eq (idx : Nat) (item : Str) : eachChain idx item = toPat (eachKeys idx item) := rfl

/-- **a body line for one item**, token level -/
theorem eachLine_render (idx : Nat) (item : Str) (hv : Clean (strip item)) (hc : Clean (camelSmall (strip item)))
    (hn : Clean (natToStr idx)) (l : Spec.SLine) (h : LineOK l) :
    applySubst (eachChain idx item) (Spec.renderLine l) =
      Spec.renderLine (Spec.substLine (Spec.byDict (eachKeys idx item)) l) := by
  have hck : ChainOK (eachKeys idx item) := by
    constructor
    · intro kv hkv
      simp only [eachKeys, List.mem_cons, List.mem_nil_iff, or_false] at hkv
      rcases hkv with e | e | e | e <;> subst e <;> exact ⟨(by decide : Clean (T _)), (by decide : NoEq (T _))⟩
    · intro kv hkv
      simp only [eachKeys, List.mem_cons, List.mem_nil_iff, or_false] at hkv
      rcases hkv with e | e | e | e <;> subst e
      · exact hv
      · exact hc
      · exact hn
      · intro c hc'
        simp only [List.mem_singleton] at hc'
        subst hc'
        rw [alphaOf_eq]
        unfold cyc
        split <;> constructor <;> omega
  rw [eachChain_eq, (applySubst_renderLine _ hck l h).1, substChain_eq]

end Engine
end KojenVerif
