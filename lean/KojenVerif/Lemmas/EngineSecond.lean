import KojenVerif.Lemmas.EngineNested
import KojenVerif.Lemmas.EngineProto
import KojenVerif.Lemmas.EngineSig
/-
  `expand_secondfiltering` on a whole file of items: nine passes of the pair expander, one per
  block kind, each replacing its blocks in place.
-/
namespace KojenVerif
namespace Engine
open Str

/-- the passes of `expand_secondfiltering` -/
inductive Pass where
  | kind (k : Spec.Kind)
  | pst
  deriving DecidableEq

def Pass.stem : Pass → Str
  | .kind k => Spec.kw k
  | .pst => T "PER_STATETRANSITION"

def Pass.sk (p : Pass) : Str := p.stem ++ T "_BEGIN"
def Pass.ek (p : Pass) : Str := p.stem ++ T "_END"

theorem Pass.sk_ok (p : Pass) : Clean p.sk ∧ NoEq p.sk := by
  cases p with
  | pst => decide
  | kind k => cases k <;> decide

theorem Pass.ek_ok (p : Pass) : Clean p.ek ∧ NoEq p.ek := by
  cases p with
  | pst => decide
  | kind k => cases k <;> decide

/-- the item as the pass sees it: its own kind of block, or lines -/
def chunkFor (p : Pass) : Spec.Item → Chunk
  | .block k ws body =>
    if p = .kind k then
      .block (Spec.delim ws (Spec.kw k ++ T "_BEGIN")) (body.map Spec.BItem.render) (Spec.delim ws (Spec.kw k ++ T "_END"))
    else .plain (Spec.Item.render (.block k ws body))
  | .pst ws body =>
    if p = .pst then
      .block (Spec.delim ws (T "PER_STATETRANSITION_BEGIN")) ((body.map Spec.PstItem.render).flatten)
        (Spec.delim ws (T "PER_STATETRANSITION_END"))
    else .plain (Spec.Item.render (.pst ws body))
  | it => .plain it.render

theorem chunkFor_lines (p : Pass) (it : Spec.Item) : (chunkFor p it).lines = it.render := by
  cases it with
  | block k ws body => simp only [chunkFor]; split <;> rfl
  | pst ws body => simp only [chunkFor]; split <;> rfl
  | b i => rfl
  | cond ws brs els => rfl
  | loop ws pr body => rfl

/-- what the pass leaves of the item: its own kind of block becomes the expansion's lines -/
def passOut (m : Spec.Model) (p : Pass) : Spec.Item → List Spec.Item
  | .block k ws body => if p = .kind k then (Spec.expandBlock m k body).map .b else [.block k ws body]
  | .pst ws body => if p = .pst then (Spec.expandPst m.table body).map .b else [.pst ws body]
  | it => [it]

/-- the expansion function the engine hands to the pair expander in this pass -/
def passFn (env : Env) (m : Spec.Model) : Pass → List Line → Str → Option (List Line)
  | .kind .ps => innerExpand env false (Table.states m.table)
  | .kind .pe => innerExpand env false m.events
  | .kind .pa => innerExpand env false (Table.actions m.table)
  | .kind .pg => innerExpand env false (Table.guards m.table)
  | .kind .pasig => sigExpand (Table.actionSigs m.table)
  | .kind .struct => innerExpand env true m.structNames
  | .kind .protomsg => innerExpand env true m.protoNames
  | .kind .msg => innerExpand env true m.msgNames
  | .pst => pstExpand m.table

/-- the grammar of a block body, per kind -/
def BodyOK (m : Spec.Model) (k : Spec.Kind) (body : List Spec.BItem) : Prop :=
  match k with
  | .pasig => (∀ i ∈ body, match i with | .line l => LineOK l | .blank t => Clean t) ∧
              ∀ q ∈ enumFrom 0 (Table.actionSigs m.table), ChainOK (sigDict q.2.1 q.2.2 q.1)
  | .struct | .protomsg | .msg => ∀ q ∈ enumFrom 0 (Spec.elements m k), ∀ i ∈ body, BodyLineOKP q.2 q.1 i
  | _ => ∀ q ∈ enumFrom 0 (Spec.elements m k), ∀ i ∈ body, BodyLineOK q.2 q.1 i

/-- the pass's own blocks lie inside the grammar of the block theorems -/
def BlockOK (m : Spec.Model) (p : Pass) : Spec.Item → Prop
  | .block k ws body => p = .kind k → Clean ws ∧ BodyOK m k body
  | .pst ws body => p = .pst → Clean ws ∧ PstOK m.table body
  | _ => True

theorem bitemText_eq (i : Spec.BItem) : Spec.bitemText i = i.render := by
  cases i <;> rfl

theorem render_b_items (bs : List Spec.BItem) : ((bs.map Spec.Item.b).map Spec.Item.render).flatten = bs.map Spec.BItem.render := by
  induction bs with
  | nil => rfl
  | cons b bs ih => simp only [List.map_cons, List.flatten_cons, Spec.Item.render, ih]; rfl

theorem chunkOut_pass (env : Env) (ht : EnvTotal env) (m : Spec.Model) (p : Pass) (it : Spec.Item)
    (h : BlockOK m p it) :
    chunkOut (passFn env m p) (chunkFor p it) = some (((passOut m p it).map Spec.Item.render).flatten) := by
  cases it with
  | b i => simp [chunkFor, chunkOut, passOut]
  | cond ws brs els => simp [chunkFor, chunkOut, passOut]
  | loop ws pr body => simp [chunkFor, chunkOut, passOut]
  | pst ws body =>
    simp only [chunkFor, passOut]
    by_cases hp : p = .pst
    · subst hp
      obtain ⟨hw, hb⟩ := h rfl
      simp only [if_true, chunkOut, passFn]
      rw [blockParam_delim ws _ hw (by decide) (by decide), pstExpand_eq m.table body hb, render_b_items]
    · simp [hp, chunkOut]
  | block k ws body =>
    simp only [chunkFor, passOut]
    by_cases hp : p = .kind k
    · subst hp
      obtain ⟨hw, hb⟩ := h rfl
      simp only [if_true, chunkOut]
      rw [render_b_items]
      cases k with
      | ps =>
        rw [blockParam_delim ws _ hw (by decide) (by decide)]
        simp only [passFn]
        rw [innerExpand_names env ht (Table.states m.table) body hb]
        simp only [Spec.expandBlock, Spec.elements, elemDict]
        congr 1; apply List.map_congr_left; intro i _; exact bitemText_eq i
      | pe =>
        rw [blockParam_delim ws _ hw (by decide) (by decide)]
        simp only [passFn]
        rw [innerExpand_names env ht (m.events) body hb]
        simp only [Spec.expandBlock, Spec.elements, elemDict]
        congr 1; apply List.map_congr_left; intro i _; exact bitemText_eq i
      | pa =>
        rw [blockParam_delim ws _ hw (by decide) (by decide)]
        simp only [passFn]
        rw [innerExpand_names env ht (Table.actions m.table) body hb]
        simp only [Spec.expandBlock, Spec.elements, elemDict]
        congr 1; apply List.map_congr_left; intro i _; exact bitemText_eq i
      | pg =>
        rw [blockParam_delim ws _ hw (by decide) (by decide)]
        simp only [passFn]
        rw [innerExpand_names env ht (Table.guards m.table) body hb]
        simp only [Spec.expandBlock, Spec.elements, elemDict]
        congr 1; apply List.map_congr_left; intro i _; exact bitemText_eq i
      | pasig =>
        rw [blockParam_delim ws _ hw (by decide) (by decide)]
        simp only [passFn]
        rw [sigExpand_eq _ body hb.1 hb.2]
        simp only [Spec.expandBlock, sigDict]
        congr 1; apply List.map_congr_left; intro i _; exact bitemText_eq i
      | struct =>
        rw [blockParam_delim ws _ hw (by decide) (by decide)]
        simp only [passFn]
        rw [innerExpand_proto env ht (m.structNames) body hb]
        simp only [Spec.expandBlock, Spec.elements, protoDict]
        congr 1; apply List.map_congr_left; intro i _; exact bitemText_eq i
      | protomsg =>
        rw [blockParam_delim ws _ hw (by decide) (by decide)]
        simp only [passFn]
        rw [innerExpand_proto env ht (m.protoNames) body hb]
        simp only [Spec.expandBlock, Spec.elements, protoDict]
        congr 1; apply List.map_congr_left; intro i _; exact bitemText_eq i
      | msg =>
        rw [blockParam_delim ws _ hw (by decide) (by decide)]
        simp only [passFn]
        rw [innerExpand_proto env ht (m.msgNames) body hb]
        simp only [Spec.expandBlock, Spec.elements, protoDict]
        congr 1; apply List.map_congr_left; intro i _; exact bitemText_eq i
    · simp [hp, chunkOut]

/-! ### one pass over a file of items -/

theorem cleanTag_sk (p : Pass) : cleanTag (tagPat p.sk) = p.sk := cleanTag_tagPat _ p.sk_ok.1
theorem cleanTag_ek (p : Pass) : cleanTag (tagPat p.ek) = p.ek := cleanTag_tagPat _ p.ek_ok.1

/-- what one pass needs of one item -/
def ItemPassOK (m : Spec.Model) (p : Pass) (it : Spec.Item) : Prop :=
  (chunkFor p it).OK p.sk p.ek ∧ BlockOK m p it

theorem flatten_flatMap_render (f : Spec.Item → List Spec.Item) (items : List Spec.Item) :
    (items.map (fun it => ((f it).map Spec.Item.render).flatten)).flatten =
      ((items.flatMap f).map Spec.Item.render).flatten := by
  induction items with
  | nil => rfl
  | cons it items ih =>
    simp only [List.map_cons, List.flatten_cons, List.flatMap_cons, List.map_append, List.flatten_append, ih]

/-- **one pass of the pair expander over a file of items**: every block of the pass's kind is replaced,
    in place, by the lines of its expansion; every other item is left as it is -/
theorem pass_items (env : Env) (ht : EnvTotal env) (m : Spec.Model) (p : Pass) (items : List Spec.Item)
    (h : ∀ it ∈ items, ItemPassOK m p it) :
    pairExpand (tagPat p.sk) (tagPat p.ek) (passFn env m p) (Spec.renderFile items) =
      some (Spec.renderFile (items.flatMap (passOut m p))) := by
  have hr : Spec.renderFile items = ((items.map (chunkFor p)).map Chunk.lines).flatten := by
    unfold Spec.renderFile
    rw [List.map_map]
    congr 1
    apply List.map_congr_left
    intro it _
    exact (chunkFor_lines p it).symm
  rw [hr, pairExpand_chunks]
  · rw [List.map_map]
    have : items.map (chunkOut (passFn env m p) ∘ chunkFor p) =
        (items.map (fun it => ((passOut m p it).map Spec.Item.render).flatten)).map some := by
      rw [List.map_map]
      apply List.map_congr_left
      intro it hit
      exact chunkOut_pass env ht m p it (h it hit).2
    rw [this, concatOpt_all_some]
    unfold Spec.renderFile
    rw [flatten_flatMap_render]
  · intro c hc
    simp only [List.mem_map] at hc
    obtain ⟨it, hit, rfl⟩ := hc
    rw [cleanTag_sk, cleanTag_ek]
    exact (h it hit).1

/-! ### all passes -/

/-- the order of `expand_secondfiltering` -/
def passOrder : List Pass :=
  [.kind .ps, .kind .pe, .kind .pa, .kind .pasig, .pst, .kind .pg, .kind .struct, .kind .protomsg, .kind .msg]

def runPasses (m : Spec.Model) : List Pass → List Spec.Item → List Spec.Item
  | [], items => items
  | p :: ps, items => runPasses m ps (items.flatMap (passOut m p))

/-- every pass finds the file - as the earlier passes left it - inside its grammar -/
def PassesOK (m : Spec.Model) : List Pass → List Spec.Item → Prop
  | [], _ => True
  | p :: ps, items => (∀ it ∈ items, ItemPassOK m p it) ∧ PassesOK m ps (items.flatMap (passOut m p))

theorem bindAll_cons (f : List Line → Option (List Line)) (fs : List (List Line → Option (List Line))) (lines : List Line) :
    bindAll (f :: fs) lines = (f lines).bind (bindAll fs) := by
  unfold bindAll
  simp only [List.foldl_cons, Option.bind_some]
  cases f lines with
  | some x => rfl
  | none =>
    simp only [Option.bind_none]
    induction fs with
    | nil => rfl
    | cons g gs ih => simpa [List.foldl_cons] using ih

theorem passes_items (env : Env) (ht : EnvTotal env) (m : Spec.Model) (ps : List Pass) (items : List Spec.Item)
    (h : PassesOK m ps items) :
    bindAll (ps.map (fun p => pairExpand (tagPat p.sk) (tagPat p.ek) (passFn env m p))) (Spec.renderFile items) =
      some (Spec.renderFile (runPasses m ps items)) := by
  induction ps generalizing items with
  | nil => rfl
  | cons p ps ih =>
    obtain ⟨h1, h2⟩ := h
    simp only [List.map_cons, bindAll_cons]
    rw [pass_items env ht m p items h1]
    simp only [Option.bind_some, runPasses]
    exact ih _ h2

/-! ### the initial-state substitution on a file of items -/

def st0Keys (m : Spec.Model) : List (Str × Str) :=
  let first := (m.table.head?.map (·.src)).getD (T "NO TT PRESENT!")
  [(T "STATE_0", first), (T "state_0", camelSmall first)]

/-- a chain whose keys are no delimiter keyword of any construct -/
structure KeysPlain (chain : List (Str × Str)) : Prop where
  nested : KeysFree chain
  passes : ∀ kv ∈ chain, ∀ p : Pass, kv.1 ≠ p.sk ∧ kv.1 ≠ p.ek
  upper : ∀ kv ∈ chain, ∀ t : Str, kv.1 ≠ T "IF " ++ t ∧ kv.1 ≠ T "ELSEIF " ++ t
  fixed : ∀ kv ∈ chain, kv.1 ≠ T "ELSE" ∧ kv.1 ≠ T "ENDIF" ∧ kv.1 ≠ T "FOR_END"

theorem st0Keys_plain (m : Spec.Model) : KeysPlain (st0Keys m) := by
  have hmem : ∀ kv ∈ st0Keys m, kv.1 = T "STATE_0" ∨ kv.1 = T "state_0" := by
    intro kv h
    simp only [st0Keys, List.mem_cons, List.not_mem_nil, or_false] at h
    rcases h with rfl | rfl
    · exact Or.inl rfl
    · exact Or.inr rfl
  refine ⟨?_, ?_, ?_, ?_⟩
  · intro kv h
    rcases hmem kv h with e | e <;> rw [e] <;> decide
  · intro kv h p
    rcases hmem kv h with e | e <;> rw [e] <;> cases p with
    | pst => decide
    | kind k => cases k <;> decide
  · intro kv h t
    rcases hmem kv h with e | e <;> rw [e] <;> constructor <;> intro c <;>
      (have := congrArg List.head? c; simp [T, ofString] at this)
  · intro kv h
    rcases hmem kv h with e | e <;> rw [e] <;> decide

def ItemOK0 (chain : List (Str × Str)) : Spec.Item → Prop
  | .b i => BItemOK i
  | .block _ ws body => Clean ws ∧ ∀ i ∈ body, BItemOK i
  | .pst ws body => Clean ws ∧ ∀ q ∈ body, PstItemOK0 q
  | .cond ws brs els => Clean ws ∧ (∀ br ∈ brs, Clean br.1 ∧ ∀ i ∈ br.2, BItemOK i) ∧ (∀ e, els = some e → ∀ i ∈ e, BItemOK i)
  | .loop ws pr body => Clean ws ∧ (∀ i ∈ body, BItemOK i) ∧
      applySubst (toPat chain) (Spec.delim ws (T "FOR_BEGIN=" ++ pr.render)) = Spec.delim ws (T "FOR_BEGIN=" ++ pr.render)

theorem map_bitems (chain : List (Str × Str)) (hc : ChainOK chain) (body : List Spec.BItem) (h : ∀ i ∈ body, BItemOK i) :
    (body.map Spec.BItem.render).map (applySubst (toPat chain)) = (body.map (Spec.BItem.subst (Spec.byDict chain))).map Spec.BItem.render := by
  rw [List.map_map, List.map_map]
  apply List.map_congr_left
  intro i hi
  exact applySubst_bitem chain hc i (h i hi)

theorem map_branches (chain : List (Str × Str)) (hc : ChainOK chain) (hk : KeysPlain chain) (ws : Str) (hw : Clean ws)
    (brs : List (Str × List Spec.BItem)) (h : ∀ br ∈ brs, Clean br.1 ∧ ∀ i ∈ br.2, BItemOK i) (first : Bool) :
    (Spec.renderBranches ws first brs).map (applySubst (toPat chain)) =
      Spec.renderBranches ws first (brs.map (fun p => (p.1, p.2.map (Spec.BItem.subst (Spec.byDict chain))))) := by
  induction brs generalizing first with
  | nil => rfl
  | cons br brs ih =>
    obtain ⟨t, body⟩ := br
    have hb := h (t, body) (by simp)
    simp only [Spec.renderBranches, List.map_append, List.map_cons, List.map_nil]
    rw [ih (fun x hx => h x (by simp [hx])) false, map_bitems chain hc body hb.2]
    congr 2
    have hkw : Clean ((if first then T "IF " else T "ELSEIF ") ++ t) := by
      cases first
      · exact (by decide : Clean (T "ELSEIF ")).append hb.1
      · exact (by decide : Clean (T "IF ")).append hb.1
    rw [applySubst_delim chain hc ws _ hw hkw]
    intro kv hkv
    cases first
    · exact (hk.upper kv hkv t).2
    · exact (hk.upper kv hkv t).1

theorem filter_item (chain : List (Str × Str)) (hc : ChainOK chain) (hk : KeysPlain chain) (it : Spec.Item)
    (h : ItemOK0 chain it) : it.render.map (applySubst (toPat chain)) = (it.subst (Spec.byDict chain)).render := by
  cases it with
  | b i => simp only [Spec.Item.render, Spec.Item.subst, List.map_cons, List.map_nil, applySubst_bitem chain hc i h]
  | block k ws body =>
    obtain ⟨hw, hb⟩ := h
    simp only [Spec.Item.render, Spec.Item.subst, List.map_append, List.map_cons, List.map_nil]
    have e1 := applySubst_delim chain hc ws (Spec.kw k ++ T "_BEGIN") hw (Pass.sk_ok (.kind k)).1
      (fun kv hkv => (hk.passes kv hkv (.kind k)).1)
    have e2 := applySubst_delim chain hc ws (Spec.kw k ++ T "_END") hw (Pass.ek_ok (.kind k)).1
      (fun kv hkv => (hk.passes kv hkv (.kind k)).2)
    rw [e1, e2, map_bitems chain hc body hb]
  | pst ws body =>
    obtain ⟨hw, hb⟩ := h
    simp only [Spec.Item.render, Spec.Item.subst, List.map_append, List.map_cons, List.map_nil, List.map_flatten, List.map_map]
    have e1 := applySubst_delim chain hc ws (T "PER_STATETRANSITION_BEGIN") hw (Pass.sk_ok .pst).1
      (fun kv hkv => (hk.passes kv hkv .pst).1)
    have e2 := applySubst_delim chain hc ws (T "PER_STATETRANSITION_END") hw (Pass.ek_ok .pst).1
      (fun kv hkv => (hk.passes kv hkv .pst).2)
    rw [e1, e2]
    congr 3
    apply List.map_congr_left
    intro q hq
    exact filter_pstItem chain hc hk.nested q (hb q hq)
  | cond ws brs els =>
    obtain ⟨hw, hb, he⟩ := h
    simp only [Spec.Item.render, Spec.Item.subst, List.map_append, List.map_cons, List.map_nil]
    rw [map_branches chain hc hk ws hw brs hb true,
      applySubst_delim chain hc ws (T "ENDIF") hw (by decide) (fun kv hkv => (hk.fixed kv hkv).2.1)]
    congr 2
    cases els with
    | none => rfl
    | some e =>
      simp only [Option.map_some, List.map_append, List.map_cons, List.map_nil]
      rw [applySubst_delim chain hc ws (T "ELSE") hw (by decide) (fun kv hkv => (hk.fixed kv hkv).1),
        map_bitems chain hc e (he e rfl)]
  | loop ws pr body =>
    obtain ⟨hw, hb, hl⟩ := h
    simp only [Spec.Item.render, Spec.Item.subst, List.map_append, List.map_cons, List.map_nil]
    rw [hl, applySubst_delim chain hc ws (T "FOR_END") hw (by decide) (fun kv hkv => (hk.fixed kv hkv).2.2),
      map_bitems chain hc body hb]

/-! ### `expand_secondfiltering` on a file -/

def toSm (m : Spec.Model) : SmInput :=
  { table := m.table, structNames := m.structNames, protoNames := m.protoNames, msgNames := m.msgNames }

/-- the grammar of a file for the second filtering -/
structure SecondOK (m : Spec.Model) (items : List Spec.Item) : Prop where
  /-- no transition-table shorthand (PlantUML / boost tables are C09's subject) -/
  noTTT : (Spec.renderFile items).any (fun l => hasTag l && tttKws.any (fun k => contains k l)) = false
  first : ChainOK (st0Keys m)
  wf : ∀ it ∈ items, ItemOK0 (st0Keys m) it
  passes : PassesOK m passOrder (items.map (Spec.Item.subst (Spec.byDict (st0Keys m))))

/-- what the second filtering makes of a file: the initial state's name in place, then every block
    replaced by its expansion -/
def secondOut (m : Spec.Model) (items : List Spec.Item) : List Spec.Item :=
  runPasses m passOrder (items.map (Spec.Item.subst (Spec.byDict (st0Keys m))))

/-- **`expand_secondfiltering` on a whole file** -/
theorem expandSecond_items (env : Env) (ht : EnvTotal env) (m : Spec.Model) (items : List Spec.Item)
    (h : SecondOK m items) :
    expandSecond env (toSm m) (Spec.renderFile items) = some (Spec.renderFile (secondOut m items)) := by
  unfold expandSecond
  simp only [h.noTTT, Bool.false_eq_true, if_false]
  have hmap : (Spec.renderFile items).map (applySubst
      [(T "<<<STATE_0>>>", ((toSm m).table.head?.map (·.src)).getD (T "NO TT PRESENT!")),
       (T "<<<state_0>>>", camelSmall (((toSm m).table.head?.map (·.src)).getD (T "NO TT PRESENT!")))]) =
      Spec.renderFile (items.map (Spec.Item.subst (Spec.byDict (st0Keys m)))) := by
    unfold Spec.renderFile
    rw [List.map_flatten, List.map_map, List.map_map]
    congr 1
    apply List.map_congr_left
    intro it hit
    exact filter_item (st0Keys m) h.first (st0Keys_plain m) it (h.wf it hit)
  rw [hmap]
  exact passes_items env ht m passOrder _ h.passes

end Engine
end KojenVerif
