import KojenVerif.Basic.Str
/-
  Lexicographic order on code-point strings (what Python's `sorted` uses on `str`) and the
  order-independence of sorting.
-/
namespace KojenVerif
namespace Str

def leB : Str → Str → Bool
  | [], _ => true
  | _ :: _, [] => false
  | a :: as, b :: bs => if a < b then true else if a = b then leB as bs else false

theorem leB_total (a b : Str) : (leB a b || leB b a) = true := by
  induction a generalizing b with
  | nil => simp [leB]
  | cons x xs ih =>
    cases b with
    | nil => simp [leB]
    | cons y ys =>
      simp only [leB]
      by_cases h1 : x < y
      · simp [h1]
      · by_cases h2 : x = y
        · subst h2; simpa [h1] using ih ys
        · have h3 : y < x := by omega
          simp [h3]

theorem leB_trans (a b c : Str) (h1 : leB a b = true) (h2 : leB b c = true) : leB a c = true := by
  induction a generalizing b c with
  | nil => simp [leB]
  | cons x xs ih =>
    cases b with
    | nil => simp [leB] at h1
    | cons y ys =>
      cases c with
      | nil => simp [leB] at h2
      | cons z zs =>
        simp only [leB] at h1 h2 ⊢
        by_cases hxy : x < y
        · by_cases hyz : y < z
          · have : x < z := by omega
            simp [this]
          · by_cases hyz' : y = z
            · subst hyz'; simp [hxy]
            · simp [hyz, hyz'] at h2
        · by_cases hxy' : x = y
          · subst hxy'
            simp only [hxy, if_false, if_true] at h1
            by_cases hyz : x < z
            · simp [hyz]
            · by_cases hyz' : x = z
              · subst hyz'
                simp only [hyz, if_false, if_true] at h2 ⊢
                exact ih ys zs h1 h2
              · simp [hyz, hyz'] at h2
          · simp [hxy, hxy'] at h1

theorem leB_antisymm (a b : Str) (h1 : leB a b = true) (h2 : leB b a = true) : a = b := by
  induction a generalizing b with
  | nil =>
    cases b with
    | nil => rfl
    | cons y ys => simp [leB] at h2
  | cons x xs ih =>
    cases b with
    | nil => simp [leB] at h1
    | cons y ys =>
      simp only [leB] at h1 h2
      by_cases hxy : x < y
      · have : ¬ y < x := by omega
        have : ¬ y = x := by omega
        simp_all
      · by_cases hxy' : x = y
        · subst hxy'
          simp only [hxy, if_false, if_true] at h1 h2
          rw [ih ys h1 h2]
        · simp [hxy, hxy'] at h1

/-- Python `sorted(strings)` -/
def sortStr (l : List Str) : List Str := l.mergeSort leB

/-- sorting forgets the order the elements arrived in -/
theorem sortStr_perm_eq (l l' : List Str) (h : l.Perm l') : sortStr l = sortStr l' := by
  unfold sortStr
  apply List.Perm.eq_of_pairwise (le := fun a b => leB a b = true)
  · intro a b _ _ h1 h2; exact leB_antisymm a b h1 h2
  · exact List.pairwise_mergeSort (fun a b c => leB_trans a b c) leB_total l
  · exact List.pairwise_mergeSort (fun a b c => leB_trans a b c) leB_total l'
  · exact (List.mergeSort_perm l leB).trans (h.trans (List.mergeSort_perm l' leB).symm)

/-- `s.replace(pat, rep)` leaves a string without an occurrence of `pat` unchanged -/
theorem replaceAux_of_not_contains (pat rep : Str) (hne : pat ≠ []) (s : Str)
    (h : contains pat s = false) : replaceAux pat rep 0 s = s := by
  induction s with
  | nil => rfl
  | cons c cs ih =>
    simp only [contains, Bool.or_eq_false_iff] at h
    simp [replaceAux, h.1, ih h.2]

theorem replaceAll_of_not_contains (pat rep s : Str) (h : contains pat s = false) :
    replaceAll pat rep s = s := by
  unfold replaceAll
  by_cases hp : pat.isEmpty
  · simp [hp]
  · have hne : pat ≠ [] := by intro e; simp [e] at hp
    simp [hp, replaceAux_of_not_contains pat rep hne s h]

end Str
end KojenVerif
