import KojenVerif.Lemmas.EngineLoad
import KojenVerif.Lemmas.EnginePipelineWF
/-
  Executable version of `GenOK`, the grammar of `generate_files`.
-/
namespace KojenVerif
namespace Engine
open Str

theorem isPrefixB_self_append (p t : Str) : isPrefixB p (p ++ t) = true := by
  induction p with
  | nil => simp [isPrefixB]
  | cons c p ih => simp [isPrefixB, ih]

def allPasses : List Pass :=
  [.kind .ps, .kind .pe, .kind .pa, .kind .pg, .kind .pasig, .kind .struct, .kind .protomsg, .kind .msg, .pst]

theorem mem_allPasses (p : Pass) : p ∈ allPasses := by
  cases p with
  | pst => simp [allPasses]
  | kind k => cases k <;> simp [allPasses]

def keysPlainB (chain : List (Str × Str)) : Bool :=
  chain.all (fun kv =>
    kv.1 != PGTB && kv.1 != PGTE && kv.1 != PETB && kv.1 != PETE &&
    allPasses.all (fun p => kv.1 != p.sk && kv.1 != p.ek) &&
    !isPrefixB (T "IF ") kv.1 && !isPrefixB (T "ELSEIF ") kv.1 &&
    kv.1 != T "ELSE" && kv.1 != T "ENDIF" && kv.1 != T "FOR_END")

theorem keysPlainB_sound (chain : List (Str × Str)) (h : keysPlainB chain = true) : KeysPlain chain := by
  simp only [keysPlainB, List.all_eq_true, Bool.and_eq_true, bne_iff_ne, ne_eq, Bool.not_eq_true'] at h
  refine ⟨?_, ?_, ?_, ?_⟩
  · intro kv hkv
    have := (h kv hkv).1.1.1.1.1.1
    exact ⟨this.1.1.1, this.1.1.2, this.1.2, this.2⟩
  · intro kv hkv p
    have := (h kv hkv).1.1.1.1.1.2 p (mem_allPasses p)
    exact this
  · intro kv hkv t
    have h1 := (h kv hkv).1.1.1.1.2
    have h2 := (h kv hkv).1.1.1.2
    constructor
    · intro e; rw [e, isPrefixB_self_append] at h1; cases h1
    · intro e; rw [e, isPrefixB_self_append] at h2; cases h2
  · intro kv hkv
    exact ⟨(h kv hkv).1.1.2, (h kv hkv).1.2, (h kv hkv).2⟩

def loadOKB (chain : List (Str × Str)) (items : List Spec.Item) : Bool :=
  !(Spec.renderFile items).any loaderUnsupported && chainOKB chain && chain.all (fun kv => decide (NoNL kv.2)) &&
  keysPlainB chain && items.all (itemOK0B chain) &&
  (Spec.renderFile items).all (fun l => decide (OneLine (toPat chain) l)) &&
  noDouble false (Spec.renderFile (items.map (Spec.Item.subst (Spec.byDict chain))))

theorem loadOKB_sound (chain : List (Str × Str)) (items : List Spec.Item) (h : loadOKB chain items = true) : LoadOK chain items := by
  simp only [loadOKB, Bool.and_eq_true, Bool.not_eq_true', List.all_eq_true, decide_eq_true_eq] at h
  obtain ⟨⟨⟨⟨⟨⟨h1, h2⟩, h3⟩, h4⟩, h5⟩, h6⟩, h7⟩ := h
  exact ⟨h1, chainOKB_sound _ h2, h3, keysPlainB_sound _ h4, fun it hit => itemOK0B_sound _ it (h5 it hit), h6, h7⟩

def genOKB (m : Spec.Model) (chain userTags : List (Str × Str)) (files : List TFile) : Bool :=
  files.all (fun f => loadOKB chain f.items) &&
  files.all (fun f => fileOKB m userTags (fdOf m chain files) (loaded chain f))

theorem genOKB_sound (m : Spec.Model) (chain userTags : List (Str × Str)) (files : List TFile)
    (h : genOKB m chain userTags files = true) : GenOK m chain userTags files := by
  simp only [genOKB, Bool.and_eq_true, List.all_eq_true] at h
  exact ⟨fun f hf => loadOKB_sound _ _ (h.1 f hf), fun f hf => fileOKB_sound _ _ _ _ (h.2 f hf)⟩

end Engine
end KojenVerif
