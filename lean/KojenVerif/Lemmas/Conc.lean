import KojenVerif.Model.Conc
/-
  Invariants of the dispatcher / queue model, for every reachable state.
-/
namespace KojenVerif
namespace Conc

def ofP (p : Nat) (l : List Item) : List Item := l.filter (fun it => it.1 == p)

/-- the item the (single) worker has popped but neither handed over nor dropped yet -/
def heldPh : WPhase → List Item
  | .got (some it) => [it]
  | _ => []

def held (s : St) : List Item := heldPh (s.workers 0)

structure Inv (stopFirst : Bool) (s : St) : Prop where
  wOut : ∀ w, s.nworkers ≤ w → s.workers w = .exited
  sd : s.shutting = true ↔ s.destroyer ≠ .alive
  st : s.stopped = true ↔ (s.destroyer = .woken ∨ s.destroyer = .joined ∨ s.destroyer = .destroyed)
  joined : (s.destroyer = .joined ∨ s.destroyer = .destroyed) → ∀ w, s.workers w = .exited
  dead : stopFirst = true → s.derivedAlive = false → s.destroyer = .destroyed
  dropped : s.dropped ≠ [] → s.shutting = true
  chain : s.nworkers ≤ 1 → ∀ p, ofP p s.begun ++ ofP p s.dropped ++ ofP p (held s) ++ ofP p s.queue
            = (List.range (s.next p)).map (fun i => (p, i))

theorem setW_same (f : Nat → WPhase) (w : Nat) (v : WPhase) : setW f w v w = v := by simp [setW]
theorem setW_other (f : Nat → WPhase) (w x : Nat) (v : WPhase) (h : x ≠ w) : setW f w v x = f x := by simp [setW, h]
theorem setN_same (f : Nat → Nat) (p v : Nat) : setN f p v p = v := by simp [setN]
theorem setN_other (f : Nat → Nat) (p x v : Nat) (h : x ≠ p) : setN f p v x = f x := by simp [setN, h]

theorem ofP_append (p : Nat) (a b : List Item) : ofP p (a ++ b) = ofP p a ++ ofP p b := by simp [ofP]

theorem range_succ_map (p n : Nat) :
    (List.range (n + 1)).map (fun i => (p, i)) = (List.range n).map (fun i => (p, i)) ++ [(p, n)] := by
  simp [List.range_succ]

theorem init_inv (sf : Bool) (totals : Nat → Nat) (nw : Nat) : Inv sf (init totals nw) := by
  refine ⟨?_, by simp [init], by simp [init], by simp [init], by simp [init], by simp [init], ?_⟩
  · intro w hw
    have hw' : nw ≤ w := hw
    have : ¬ w < nw := by omega
    simp [init, this]
  · intro _ p
    by_cases h0 : 0 < nw <;> simp [init, ofP, held, heldPh, h0]

/-- a worker of index 0 is the only live one when there is at most one worker -/
theorem single_worker (sf : Bool) (s : St) (h : Inv sf s) (h1 : s.nworkers ≤ 1) (w : Nat) (hw : w < s.nworkers) : w = 0 := by omega


theorem inv_push (sf : Bool) (s s' : St) (p : Nat) (h : Inv sf s) (hs : step sf s (.push p) = some s') : Inv sf s' := by
  simp only [step] at hs
  split at hs
  · simp only [Option.some.injEq] at hs; subst hs
    refine ⟨h.wOut, h.sd, h.st, h.joined, h.dead, h.dropped, ?_⟩
    intro h1 q
    have hc := h.chain h1 q
    by_cases hq : q = p
    · subst hq
      simp only [setN_same, ofP_append, held] at hc ⊢
      rw [range_succ_map, ← hc]
      simp [ofP, List.append_assoc]
    · have hne : (p == q) = false := by simp; exact fun e => hq e.symm
      simp only [setN_other _ _ _ _ hq, ofP_append, held] at hc ⊢
      simpa [ofP, hne] using hc
  · cases hs

theorem inv_wCheck (sf : Bool) (s s' : St) (w : Nat) (h : Inv sf s) (hs : step sf s (.wCheck w) = some s') : Inv sf s' := by
  simp only [step] at hs
  split at hs
  · rename_i hg
    simp only [Option.some.injEq] at hs; subst hs
    refine ⟨?_, h.sd, h.st, ?_, h.dead, h.dropped, ?_⟩
    · intro x hx
      have hx' : s.nworkers ≤ x := hx
      have : x ≠ w := by omega
      simp only [setW_other _ _ _ _ this]; exact h.wOut x hx'
    · intro hj x
      have := h.joined hj w
      rw [hg.2] at this; cases this
    · intro h1 p
      have h1' : s.nworkers ≤ 1 := h1
      have hc := h.chain h1' p
      have hw0 : w = 0 := by omega
      subst hw0
      have h0 : held s = [] := by simp [held, heldPh, hg.2]
      rw [h0] at hc
      have hnew : heldPh (setW s.workers 0 (if s.shutting = true then WPhase.exited else WPhase.popping) 0) = [] := by
        rw [setW_same]; split <;> rfl
      show _ ++ _ ++ ofP p (heldPh _) ++ _ = _
      rw [hnew]; exact hc
  · cases hs

theorem inv_wPop (sf : Bool) (s s' : St) (w : Nat) (h : Inv sf s) (hs : step sf s (.wPop w) = some s') : Inv sf s' := by
  simp only [step] at hs
  split at hs
  · rename_i hg
    have hwOut : ∀ (v : WPhase) x, s.nworkers ≤ x → setW s.workers w v x = .exited := by
      intro v x hx
      have : x ≠ w := by omega
      rw [setW_other _ _ _ _ this]; exact h.wOut x hx
    have hnj : ¬ (s.destroyer = .joined ∨ s.destroyer = .destroyed) := by
      intro hj; have := h.joined hj w; rw [hg.2.1] at this; cases this
    cases hq : s.queue with
    | nil =>
      rw [hq] at hs
      simp only [Option.some.injEq] at hs; subst hs
      refine ⟨hwOut _, h.sd, h.st, fun hj => absurd hj hnj, h.dead, h.dropped, ?_⟩
      intro h1 p
      have h1' : s.nworkers ≤ 1 := h1
      have hc := h.chain h1' p
      have hw0 : w = 0 := by omega
      subst hw0
      have h0 : held s = [] := by simp [held, heldPh, hg.2.1]
      rw [h0, hq] at hc
      show _ ++ _ ++ ofP p (heldPh (setW s.workers 0 (WPhase.got none) 0)) ++ ofP p [] = _
      rw [setW_same]; exact hc
    | cons it rest =>
      rw [hq] at hs
      simp only [Option.some.injEq] at hs; subst hs
      refine ⟨hwOut _, h.sd, h.st, fun hj => absurd hj hnj, h.dead, h.dropped, ?_⟩
      intro h1 p
      have h1' : s.nworkers ≤ 1 := h1
      have hc := h.chain h1' p
      have hw0 : w = 0 := by omega
      subst hw0
      have h0 : held s = [] := by simp [held, heldPh, hg.2.1]
      rw [h0, hq] at hc
      show _ ++ _ ++ ofP p (heldPh (setW s.workers 0 (WPhase.got (some it)) 0)) ++ ofP p rest = _
      rw [setW_same, ← hc]
      simp only [heldPh, ofP]
      by_cases hp : it.1 == p
      · simp [List.filter_cons, hp, List.append_assoc]
      · have hp' : (it.1 == p) = false := by simpa using hp
        simp [List.filter_cons, hp']
  · cases hs

theorem inv_wTest (sf : Bool) (s s' : St) (w : Nat) (h : Inv sf s) (hs : step sf s (.wTest w) = some s') : Inv sf s' := by
  simp only [step] at hs
  split at hs
  · rename_i hw
    have hwOut : ∀ (v : WPhase) x, s.nworkers ≤ x → setW s.workers w v x = .exited := by
      intro v x hx
      have : x ≠ w := by omega
      rw [setW_other _ _ _ _ this]; exact h.wOut x hx
    split at hs
    · rename_i it hph
      have hnj : ¬ (s.destroyer = .joined ∨ s.destroyer = .destroyed) := by
        intro hj; have := h.joined hj w; rw [hph] at this; cases this
      by_cases hsd : s.shutting = true
      · rw [if_pos hsd] at hs
        simp only [Option.some.injEq] at hs; subst hs
        refine ⟨hwOut _, h.sd, h.st, fun hj => absurd hj hnj, h.dead, fun _ => hsd, ?_⟩
        intro h1 p
        have h1' : s.nworkers ≤ 1 := h1
        have hc := h.chain h1' p
        have hw0 : w = 0 := by omega
        subst hw0
        have h0 : held s = [it] := by simp [held, heldPh, hph]
        rw [h0] at hc
        show _ ++ ofP p (s.dropped ++ [it]) ++ ofP p (heldPh (setW s.workers 0 WPhase.top 0)) ++ _ = _
        rw [setW_same, ← hc]
        simp [heldPh, ofP, List.append_assoc]
      · rw [if_neg hsd] at hs
        simp only [Option.some.injEq] at hs; subst hs
        have hdr : s.dropped = [] := by
          cases hd : s.dropped with
          | nil => rfl
          | cons a b => exact absurd (h.dropped (by simp [hd])) hsd
        refine ⟨hwOut _, h.sd, h.st, fun hj => absurd hj hnj, h.dead, h.dropped, ?_⟩
        intro h1 p
        have h1' : s.nworkers ≤ 1 := h1
        have hc := h.chain h1' p
        have hw0 : w = 0 := by omega
        subst hw0
        have h0 : held s = [it] := by simp [held, heldPh, hph]
        rw [h0, hdr] at hc
        show ofP p (s.begun ++ [it]) ++ ofP p s.dropped ++ ofP p (heldPh (setW s.workers 0 (WPhase.handling it) 0)) ++ _ = _
        rw [setW_same, hdr, ← hc]
        simp [heldPh, ofP, List.append_assoc]
    · rename_i hph
      simp only [Option.some.injEq] at hs; subst hs
      have hnj : ¬ (s.destroyer = .joined ∨ s.destroyer = .destroyed) := by
        intro hj; have := h.joined hj w; rw [hph] at this; cases this
      refine ⟨hwOut _, h.sd, h.st, fun hj => absurd hj hnj, h.dead, h.dropped, ?_⟩
      intro h1 p
      have h1' : s.nworkers ≤ 1 := h1
      have hc := h.chain h1' p
      have hw0 : w = 0 := by omega
      subst hw0
      have h0 : held s = [] := by simp [held, heldPh, hph]
      rw [h0] at hc
      show _ ++ _ ++ ofP p (heldPh (setW s.workers 0 WPhase.top 0)) ++ _ = _
      rw [setW_same]; exact hc
    · cases hs
  · cases hs

theorem inv_wEnd (sf : Bool) (s s' : St) (w : Nat) (h : Inv sf s) (hs : step sf s (.wEnd w) = some s') : Inv sf s' := by
  simp only [step] at hs
  split at hs
  · rename_i hw
    split at hs
    · rename_i it hph
      simp only [Option.some.injEq] at hs; subst hs
      have hnj : ¬ (s.destroyer = .joined ∨ s.destroyer = .destroyed) := by
        intro hj; have := h.joined hj w; rw [hph] at this; cases this
      refine ⟨?_, h.sd, h.st, fun hj => absurd hj hnj, h.dead, h.dropped, ?_⟩
      · intro x hx
        have hx' : s.nworkers ≤ x := hx
        have : x ≠ w := by omega
        simp only [setW_other _ _ _ _ this]; exact h.wOut x hx'
      · intro h1 p
        have h1' : s.nworkers ≤ 1 := h1
        have hc := h.chain h1' p
        have hw0 : w = 0 := by omega
        subst hw0
        have h0 : held s = [] := by simp [held, heldPh, hph]
        rw [h0] at hc
        show _ ++ _ ++ ofP p (heldPh (setW s.workers 0 WPhase.top 0)) ++ _ = _
        rw [setW_same]; exact hc
    · cases hs
  · cases hs

theorem inv_dSet (sf : Bool) (s s' : St) (h : Inv sf s) (hs : step sf s .dSet = some s') : Inv sf s' := by
  simp only [step] at hs
  split at hs
  · rename_i hg
    simp only [Option.some.injEq] at hs; subst hs
    refine ⟨h.wOut, by simp, ?_, ?_, ?_, fun _ => rfl, h.chain⟩
    · have := h.st; rw [hg.1] at this; simpa using this
    · intro hj; rcases hj with hj | hj <;> cases hj
    · intro hsf hd
      have := h.dead hsf hd
      rw [hg.1] at this; cases this
  · cases hs

theorem inv_dWake (sf : Bool) (s s' : St) (h : Inv sf s) (hs : step sf s .dWake = some s') : Inv sf s' := by
  simp only [step] at hs
  split at hs
  · rename_i hg
    simp only [Option.some.injEq] at hs; subst hs
    refine ⟨h.wOut, ?_, by simp, ?_, ?_, h.dropped, h.chain⟩
    · have := h.sd; rw [hg] at this; simpa using this
    · intro hj; rcases hj with hj | hj <;> cases hj
    · intro hsf hd
      have := h.dead hsf hd
      rw [hg] at this; cases this
  · cases hs

theorem inv_dJoin (sf : Bool) (s s' : St) (h : Inv sf s) (hs : step sf s .dJoin = some s') : Inv sf s' := by
  simp only [step] at hs
  split at hs
  · rename_i hg
    simp only [Option.some.injEq] at hs; subst hs
    have hstop : s.stopped = true := h.st.2 (Or.inl hg.1)
    refine ⟨h.wOut, ?_, ?_, ?_, ?_, h.dropped, h.chain⟩
    · have := h.sd; rw [hg.1] at this; simpa using this
    · simp [hstop]
    · intro _ w
      by_cases hw : w < s.nworkers
      · exact hg.2 w hw
      · exact h.wOut w (by omega)
    · intro hsf hd
      have := h.dead hsf hd
      rw [hg.1] at this; cases this
  · cases hs

theorem inv_dDestroy (sf : Bool) (s s' : St) (h : Inv sf s) (hs : step sf s .dDestroyDerived = some s') : Inv sf s' := by
  cases sf with
  | true =>
    simp only [step, if_true] at hs
    split at hs
    · rename_i hg
      simp only [Option.some.injEq] at hs; subst hs
      have hstop : s.stopped = true := h.st.2 (Or.inr (Or.inl hg.2))
      have hsd : s.shutting = true := h.sd.2 (by rw [hg.2]; simp)
      refine ⟨h.wOut, ?_, ?_, ?_, fun _ _ => rfl, h.dropped, h.chain⟩
      · simp [hsd]
      · simp [hstop]
      · intro _; exact h.joined (Or.inl hg.2)
    · cases hs
  | false =>
    simp only [step, Bool.false_eq_true, if_false] at hs
    split at hs
    · simp only [Option.some.injEq] at hs; subst hs
      exact ⟨h.wOut, h.sd, h.st, h.joined, fun hf => Bool.noConfusion hf, h.dropped, h.chain⟩
    · cases hs

theorem step_inv (sf : Bool) (s s' : St) (l : Label) (h : Inv sf s) (hs : step sf s l = some s') : Inv sf s' := by
  cases l with
  | push p => exact inv_push sf s s' p h hs
  | wCheck w => exact inv_wCheck sf s s' w h hs
  | wPop w => exact inv_wPop sf s s' w h hs
  | wTest w => exact inv_wTest sf s s' w h hs
  | wEnd w => exact inv_wEnd sf s s' w h hs
  | dSet => exact inv_dSet sf s s' h hs
  | dWake => exact inv_dWake sf s s' h hs
  | dJoin => exact inv_dJoin sf s s' h hs
  | dDestroyDerived => exact inv_dDestroy sf s s' h hs

theorem run_inv (sf : Bool) (s s' : St) (ls : List Label) (h : Inv sf s) (hr : run sf s ls = some s') : Inv sf s' := by
  induction ls generalizing s with
  | nil => simp [run] at hr; subst hr; exact h
  | cons l ls ih =>
    simp only [run] at hr
    cases hst : step sf s l with
    | none => rw [hst] at hr; cases hr
    | some s1 => rw [hst] at hr; exact ih s1 (step_inv sf s s1 l h hst) hr

theorem reachable_inv (sf : Bool) (totals : Nat → Nat) (nw : Nat) (s : St) (h : Reachable sf totals nw s) : Inv sf s := by
  obtain ⟨ls, hr⟩ := h
  exact run_inv sf _ s ls (init_inv sf totals nw) hr

end Conc
end KojenVerif
