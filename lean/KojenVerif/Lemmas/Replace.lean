import KojenVerif.Lemmas.Regen
import KojenVerif.Lemmas.Lost
import KojenVerif.Lemmas.Pipeline
/-
  Replace-mode `Emplace` (FileSync) over a rendered document.
-/
namespace KojenVerif
section
variable {L K : Type} [DecidableEq K]

/-- what the destination file must look like relative to the source's table `t`:
    text and body lines do not clean to a source key; a shared pair closes with the same key,
    its closing line passes the replace-mode filter and its body lines do not -/
def Item.okRepl (c : Cfg L K) (t : Tags L K) : Item L → Prop
  | .text l => c.lookup t l = none
  | .block o cl b => c.isTag o = true ∧ c.isTag cl = true ∧ c.key cl = c.key o ∧ (∀ x ∈ b, c.lookup t x = none) ∧
      ((Tags.get? t (c.key o)).isSome → c.keep o cl = true ∧ ∀ x ∈ b, c.keep o x = false)

theorem emplaceAux_true_body_some (c : Cfg L K) (t : Tags L K) (b : List L) (tl : L)
    (hb : ∀ x ∈ b, c.lookup t x = none) (hk : ∀ x ∈ b, c.keep tl x = false) (rest : List L) :
    emplaceAux c t true (b ++ rest) (some tl) = emplaceAux c t true rest (some tl) := by
  induction b with
  | nil => simp
  | cons x b ih =>
    have hx := hb x (by simp)
    have hkx := hk x (by simp)
    have hb' : ∀ y ∈ b, c.lookup t y = none := fun y hy => hb y (by simp [hy])
    have hk' : ∀ y ∈ b, c.keep tl y = false := fun y hy => hk y (by simp [hy])
    simp [emplaceAux, hx, hkx, ih hb' hk']

theorem emplaceAux_true_render (c : Cfg L K) (t : Tags L K) (D : List (Item L))
    (h : ∀ it ∈ D, it.okRepl c t) (rest : List L) :
    emplaceAux c t true (render D ++ rest) none
      = render (D.map (Item.fillReplace c t)) ++ emplaceAux c t true rest none := by
  induction D with
  | nil => simp [render]
  | cons it D ih =>
    have hD : ∀ it ∈ D, it.okRepl c t := fun x hx => h x (by simp [hx])
    have hit := h it (by simp)
    cases it with
    | text l =>
      simp only [Item.okRepl] at hit
      simp [render, Item.render, Item.fillReplace, emplaceAux, hit, ih hD]
    | block o cl b =>
      simp only [Item.okRepl] at hit
      obtain ⟨hto, htc, hk, hb, hs⟩ := hit
      have hlo := Cfg.lookup_of_tag c t o hto
      have hlc := Cfg.lookup_of_tag c t cl htc
      simp only [render, Item.render, List.map_cons, List.cons_append, List.append_assoc]
      cases hg : Tags.get? t (c.key o) with
      | none =>
        have hcl : c.lookup t cl = none := by rw [hlc, hk]; exact hg
        rw [hg] at hlo
        simp only [emplaceAux, hlo, hg, Item.fillReplace]
        rw [emplaceAux_body_none c t true b hb]
        simp [emplaceAux, hcl, ih hD]
      | some pb =>
        have hcl : c.lookup t cl = some pb := by rw [hlc, hk]; exact hg
        obtain ⟨hkeep, hdrop⟩ := hs (by simp [hg])
        rw [hg] at hlo
        simp only [emplaceAux, hlo, hg, Item.fillReplace]
        rw [emplaceAux_true_body_some c t b o hb hdrop]
        simp [emplaceAux, hcl, hkeep, ih hD, Item.render]

theorem emplaceReplace_render (c : Cfg L K) (t : Tags L K) (D : List (Item L))
    (h : ∀ it ∈ D, it.okRepl c t) :
    emplaceReplace c t (render D) = render (D.map (Item.fillReplace c t)) := by
  have := emplaceAux_true_render c t D h []
  simpa [emplaceReplace, emplaceAux] using this

theorem fillReplace_congr (c : Cfg L K) (t t' : Tags L K) (h : ∀ k, Tags.get? t k = Tags.get? t' k)
    (it : Item L) : it.fillReplace c t = it.fillReplace c t' := by
  cases it <;> simp [Item.fillReplace, h]

theorem lookup_congr (c : Cfg L K) (t t' : Tags L K) (h : ∀ k, Tags.get? t k = Tags.get? t' k)
    (l : L) : c.lookup t l = c.lookup t' l := by
  simp [Cfg.lookup, h]

theorem okRepl_congr (c : Cfg L K) (t t' : Tags L K) (h : ∀ k, Tags.get? t k = Tags.get? t' k)
    (it : Item L) (hit : it.okRepl c t) : it.okRepl c t' := by
  cases it with
  | text l => simpa [Item.okRepl, lookup_congr c t' t (fun k => (h k).symm)] using hit
  | block o cl b =>
    simp only [Item.okRepl] at hit ⊢
    obtain ⟨h1, h2, h3, h4, h5⟩ := hit
    refine ⟨h1, h2, h3, ?_, ?_⟩
    · intro x hx; rw [lookup_congr c t' t (fun k => (h k).symm)]; exact h4 x hx
    · intro hs; apply h5; rw [h]; exact hs

end

open Str

theorem flatten_splitLinesAux (s cur : Str) :
    (splitLinesAux s cur).flatten = cur.reverse ++ s := by
  induction s generalizing cur with
  | nil =>
    by_cases h : cur.isEmpty
    · have : cur = [] := by simpa using h
      subst this; simp [splitLinesAux]
    · simp [splitLinesAux, h]
  | cons c cs ih =>
    by_cases h : c = NL
    · subst h
      simp [splitLinesAux, ih]
    · have : (c == NL) = false := by simp [h]
      simp [splitLinesAux, this, ih]

/-- reading a file as lines and writing the lines back is the identity on its content -/
theorem flatten_splitLines (s : Str) : (splitLines s).flatten = s := by
  simpa [splitLines] using flatten_splitLinesAux s []

end KojenVerif
