import KojenVerif.Model.Vpp
import KojenVerif.Lemmas.Table
/-
  `GetTransitionTable`: what the two loops over the transitions and the final flattening
  compute, for every list of resolved transitions.
-/
namespace KojenVerif
namespace Vpp
open Str

def uniq (l : List Str) : List Str := l.foldl Table.addUniq []

def nonInit (rts : List RT) : List RT := rts.filter (fun t => !t.isInit)
def initTargets (rts : List RT) : List Str := (rts.filter (fun t => t.isInit)).map (·.dst)

/-- order of the source-state groups: targets of the initial pseudo-state's arrows, then the
    other source states in order of first appearance -/
def order (rts : List RT) : List Str := uniq (initTargets rts ++ (nonInit rts).map (·.src))

/-- **the table the property describes**: per source state (in `order`), the rows of its
    transitions in diagram order -/
def specRows (rts : List RT) : List (List Str) :=
  (order rts).flatMap (fun k => ((nonInit rts).filter (fun t => t.src == k)).map (·.row))

/-- groups with the given keys and contents -/
def mk (keys : List Str) (c : Str → List (List Str)) : Groups := keys.map (fun k => (k, c k))

theorem any_mk (keys : List Str) (c : Str → List (List Str)) (k : Str) :
    (mk keys c).any (fun kv => kv.1 == k) = keys.contains k := by
  induction keys with
  | nil => rfl
  | cons a keys ih =>
    simp only [mk, List.map_cons, List.any_cons, List.contains_cons] at ih ⊢
    rw [ih]
    by_cases h : a = k
    · subst h; simp
    · have h' : ¬ k = a := fun e => h e.symm
      have e1 : (a == k) = false := by simpa using h
      have e2 : (k == a) = false := by simpa using h'
      simp [e1, e2]

theorem gReset_empty (keys : List Str) (k : Str) :
    gReset (mk keys (fun _ => [])) k = mk (Table.addUniq keys k) (fun _ => []) := by
  unfold gReset
  rw [any_mk]
  unfold Table.addUniq
  by_cases h : keys.contains k = true
  · simp only [h, if_true, mk, List.map_map]
    apply List.map_congr_left
    intro a _
    by_cases e : a = k
    · subst e; simp
    · simp [e]
  · have hn : k ∉ keys := by simpa using h
    simp [hn, mk]

theorem loop1 (rts : List RT) (keys : List Str) :
    rts.foldl (fun g t => if t.isInit then gReset g t.dst else g) (mk keys (fun _ => []))
      = mk ((initTargets rts).foldl Table.addUniq keys) (fun _ => []) := by
  induction rts generalizing keys with
  | nil => rfl
  | cons t rts ih =>
    simp only [List.foldl_cons]
    by_cases h : t.isInit = true
    · simp only [h, if_true, gReset_empty, ih]
      simp [initTargets, List.filter_cons, h]
    · have h' : t.isInit = false := by simpa using h
      simp only [h', Bool.false_eq_true, if_false, ih]
      simp [initTargets, List.filter_cons, h']

def rowsOf (acc : List RT) (k : Str) : List (List Str) := (acc.filter (fun t => t.src == k)).map (·.row)

theorem step2 (keys : List Str) (acc : List RT) (hacc : ∀ x ∈ acc, x.src ∈ keys) (t : RT) :
    gAppend (gEnsure (mk keys (rowsOf acc)) t.src) t.src t.row = mk (Table.addUniq keys t.src) (rowsOf (acc ++ [t])) := by
  unfold gEnsure
  rw [any_mk]
  unfold Table.addUniq
  by_cases h : keys.contains t.src = true
  · simp only [h, if_true, gAppend, mk, List.map_map]
    apply List.map_congr_left
    intro a _
    by_cases e : a = t.src
    · subst e; simp [rowsOf, List.filter_append, List.filter_cons]
    · have e' : ¬ t.src = a := fun x => e x.symm
      simp [e, e', rowsOf, List.filter_append, List.filter_cons]
  · have hn : t.src ∉ keys := by simpa using h
    simp only [h, Bool.false_eq_true, if_false, gAppend, mk, List.map_append, List.map_map, List.map_cons, List.map_nil]
    congr 1
    · apply List.map_congr_left
      intro a ha
      have e : ¬ a = t.src := fun x => hn (x ▸ ha)
      have e' : ¬ t.src = a := fun x => e x.symm
      simp [e, e', rowsOf, List.filter_append, List.filter_cons]
    · have hnone : acc.filter (fun x => x.src == t.src) = [] := by
        apply List.filter_eq_nil_iff.2
        intro x hx
        have : x.src ≠ t.src := fun e => hn (e ▸ hacc x hx)
        simpa using this
      simp [rowsOf, List.filter_append, List.filter_cons, hnone]

theorem mem_addUniq (l : List Str) (x y : Str) : y ∈ Table.addUniq l x ↔ y ∈ l ∨ y = x := by
  unfold Table.addUniq
  by_cases h : l.contains x = true
  · have hx : x ∈ l := by simpa using h
    simp only [h, if_true]
    constructor
    · exact Or.inl
    · rintro (h1 | h1)
      · exact h1
      · subst h1; exact hx
  · have hx : x ∉ l := by simpa using h
    simp [hx]

theorem loop2 (rts : List RT) (keys : List Str) (acc : List RT) (hacc : ∀ x ∈ acc, x.src ∈ keys) :
    rts.foldl (fun g t => if t.isInit then g else gAppend (gEnsure g t.src) t.src t.row) (mk keys (rowsOf acc))
      = mk (((nonInit rts).map (·.src)).foldl Table.addUniq keys) (rowsOf (acc ++ nonInit rts)) := by
  induction rts generalizing keys acc with
  | nil => simp [nonInit]
  | cons t rts ih =>
    simp only [List.foldl_cons]
    by_cases h : t.isInit = true
    · simp only [h, if_true]
      rw [ih keys acc hacc]
      simp [nonInit, List.filter_cons, h]
    · have h' : t.isInit = false := by simpa using h
      simp only [h', Bool.false_eq_true, if_false]
      rw [step2 keys acc hacc t, ih]
      · simp [nonInit, List.filter_cons, h']
      · intro x hx
        rw [mem_addUniq]
        rcases List.mem_append.1 hx with hx | hx
        · exact Or.inl (hacc x hx)
        · simp at hx; subst hx; exact Or.inr rfl

/-- **`GetTransitionTable` = the specification** -/
theorem assemble_eq (rts : List RT) : assemble rts = specRows rts := by
  unfold assemble specRows order uniq
  have h1 := loop1 rts []
  have e0 : ([] : Groups) = mk [] (fun _ => []) := rfl
  have e1 : mk ((initTargets rts).foldl Table.addUniq []) (fun _ => []) = mk ((initTargets rts).foldl Table.addUniq []) (rowsOf []) := by
    simp [mk, rowsOf]
  have h2 := loop2 rts ((initTargets rts).foldl Table.addUniq []) [] (by intro x hx; cases hx)
  simp only
  rw [e0, h1, e1, h2]
  simp only [List.nil_append, List.foldl_append, mk, List.map_map]
  rw [List.flatMap_def]
  congr 1

end Vpp
end KojenVerif

namespace KojenVerif
namespace Vpp
open Str

theorem filter_or_perm {α} (p q : α → Bool) (l : List α) (hd : ∀ x ∈ l, ¬ (p x = true ∧ q x = true)) :
    (l.filter (fun x => p x || q x)).Perm (l.filter p ++ l.filter q) := by
  induction l with
  | nil => simp
  | cons a l ih =>
    have hl : ∀ x ∈ l, ¬ (p x = true ∧ q x = true) := fun x hx => hd x (by simp [hx])
    have ha := hd a (by simp)
    by_cases hp : p a = true
    · have hq : q a = false := by
        cases h : q a with
        | false => rfl
        | true => exact absurd ⟨hp, h⟩ ha
      simp only [List.filter_cons, hp, hq, Bool.true_or, if_true, Bool.false_eq_true, if_false, List.cons_append]
      exact List.Perm.cons a (ih hl)
    · have hp' : p a = false := by simpa using hp
      by_cases hq : q a = true
      · simp only [List.filter_cons, hp', hq, Bool.false_or, if_true, Bool.false_eq_true, if_false]
        exact (List.Perm.cons a (ih hl)).trans List.perm_middle.symm
      · have hq' : q a = false := by simpa using hq
        simp only [List.filter_cons, hp', hq', Bool.or_self, Bool.false_eq_true, if_false]
        exact ih hl

/-- partition by key: over a duplicate-free key list, the classes together are the elements
    whose key is in the list -/
theorem flatMap_filter_perm {α} (key : α → Str) (l : List α) (ks : List Str) (hk : ks.Nodup) :
    (ks.flatMap (fun k => l.filter (fun x => key x == k))).Perm (l.filter (fun x => ks.contains (key x))) := by
  induction ks with
  | nil => simp
  | cons k ks ih =>
    have hk' : ks.Nodup := (List.nodup_cons.1 hk).2
    have hnot : k ∉ ks := (List.nodup_cons.1 hk).1
    simp only [List.flatMap_cons]
    have e : (fun x => (k :: ks).contains (key x)) = (fun x => (key x == k) || ks.contains (key x)) := by
      funext x
      by_cases hx : key x = k <;> simp [hx]
    rw [e]
    refine (List.Perm.append_left _ (ih hk')).trans ?_
    refine (filter_or_perm (fun x => key x == k) (fun x => ks.contains (key x)) l ?_).symm
    intro x _ ⟨h1, h2⟩
    have : key x = k := by simpa using h1
    rw [this] at h2
    exact hnot (by simpa using h2)

theorem nodup_uniq (l : List Str) : (uniq l).Nodup := by
  unfold uniq
  have : ∀ (xs init : List Str), init.Nodup → (xs.foldl Table.addUniq init).Nodup := by
    intro xs
    induction xs with
    | nil => intro init h; exact h
    | cons x xs ih => intro init h; exact ih _ (Table.nodup_addUniq init x h)
  exact this l [] List.nodup_nil

theorem mem_uniq (l : List Str) (x : Str) : x ∈ uniq l ↔ x ∈ l := by
  unfold uniq
  have : ∀ (xs init : List Str), x ∈ xs.foldl Table.addUniq init ↔ x ∈ init ∨ x ∈ xs := by
    intro xs
    induction xs with
    | nil => intro init; simp
    | cons y xs ih =>
      intro init
      simp only [List.foldl_cons]
      rw [ih, mem_addUniq]
      simp only [List.mem_cons]
      constructor
      · rintro ((h | h) | h)
        · exact Or.inl h
        · exact Or.inr (Or.inl h)
        · exact Or.inr (Or.inr h)
      · rintro (h | h | h)
        · exact Or.inl (Or.inl h)
        · exact Or.inl (Or.inr h)
        · exact Or.inr h
  simpa using this l []

/-- **exactly one row per transition that does not leave the initial pseudo-state** -/
theorem specRows_perm (rts : List RT) : (specRows rts).Perm ((nonInit rts).map (·.row)) := by
  unfold specRows
  have h := flatMap_filter_perm (fun t : RT => t.src) (nonInit rts) (order rts) (nodup_uniq _)
  have hall : (nonInit rts).filter (fun x => (order rts).contains x.src) = nonInit rts := by
    apply List.filter_eq_self.2
    intro x hx
    have : x.src ∈ order rts := by
      unfold order
      rw [mem_uniq]
      exact List.mem_append_right _ (List.mem_map.2 ⟨x, hx, rfl⟩)
    simpa using this
  rw [hall] at h
  have := h.map (·.row)
  simp only [List.map_flatMap] at this
  exact this

/-- the first group is the target of the (first) arrow leaving the initial pseudo-state -/
theorem order_head (rts : List RT) (k : Str) (ks : List Str) (h : initTargets rts = k :: ks) :
    (order rts).head? = some k := by
  unfold order uniq
  rw [h]
  simp only [List.cons_append, List.foldl_cons]
  have e : Table.addUniq [] k = [k] := by simp [Table.addUniq]
  rw [e]
  have : ∀ (xs init : List Str) (a : Str), (xs.foldl Table.addUniq (a :: init)).head? = some a := by
    intro xs
    induction xs with
    | nil => intro init a; rfl
    | cons x xs ih =>
      intro init a
      simp only [List.foldl_cons]
      unfold Table.addUniq
      by_cases hc : (a :: init).contains x = true
      · simp only [hc, if_true]; exact ih init a
      · simp only [hc, Bool.false_eq_true, if_false, List.cons_append]; exact ih _ a
  exact this _ [] k

end Vpp
end KojenVerif
