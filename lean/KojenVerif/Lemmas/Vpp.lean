import KojenVerif.Model.Vpp
import KojenVerif.Lemmas.Table
/-
  `GetTransitionTable`: what the two loops over the transitions and the final flattening
  compute, for every list of resolved transitions.
-/
namespace KojenVerif
namespace Vpp
open Str

def uniq (l : List Str) : List Str := l.foldl Table.addUniq []

def nonInit (rts : List RT) : List RT := rts.filter (fun t => !t.isInit)
def initTargets (rts : List RT) : List Str := (rts.filter (fun t => t.isInit)).map (·.dst)

/-- order of the source-state groups: targets of the initial pseudo-state's arrows, then the
    other source states in order of first appearance -/
def order (rts : List RT) : List Str := uniq (initTargets rts ++ (nonInit rts).map (·.src))

/-- **the table the property describes**: per source state (in `order`), the rows of its
    transitions in diagram order -/
def specRows (rts : List RT) : List (List Str) :=
  (order rts).flatMap (fun k => ((nonInit rts).filter (fun t => t.src == k)).map (·.row))

/-- groups with the given keys and contents -/
def mk (keys : List Str) (c : Str → List (List Str)) : Groups := keys.map (fun k => (k, c k))

theorem any_mk (keys : List Str) (c : Str → List (List Str)) (k : Str) :
    (mk keys c).any (fun kv => kv.1 == k) = keys.contains k := by
  induction keys with
  | nil => rfl
  | cons a keys ih =>
    simp only [mk, List.map_cons, List.any_cons, List.contains_cons] at ih ⊢
    rw [ih]
    by_cases h : a = k
    · subst h; simp
    · have h' : ¬ k = a := fun e => h e.symm
      have e1 : (a == k) = false := by simpa using h
      have e2 : (k == a) = false := by simpa using h'
      simp [e1, e2]

theorem gReset_empty (keys : List Str) (k : Str) :
    gReset (mk keys (fun _ => [])) k = mk (Table.addUniq keys k) (fun _ => []) := by
  unfold gReset
  rw [any_mk]
  unfold Table.addUniq
  by_cases h : keys.contains k = true
  · simp only [h, if_true, mk, List.map_map]
    apply List.map_congr_left
    intro a _
    by_cases e : a = k
    · subst e; simp
    · simp [e]
  · have hn : k ∉ keys := by simpa using h
    simp [hn, mk]

theorem loop1 (rts : List RT) (keys : List Str) :
    rts.foldl (fun g t => if t.isInit then gReset g t.dst else g) (mk keys (fun _ => []))
      = mk ((initTargets rts).foldl Table.addUniq keys) (fun _ => []) := by
  induction rts generalizing keys with
  | nil => rfl
  | cons t rts ih =>
    simp only [List.foldl_cons]
    by_cases h : t.isInit = true
    · simp only [h, if_true, gReset_empty, ih]
      simp [initTargets, List.filter_cons, h]
    · have h' : t.isInit = false := by simpa using h
      simp only [h', Bool.false_eq_true, if_false, ih]
      simp [initTargets, List.filter_cons, h']

def rowsOf (acc : List RT) (k : Str) : List (List Str) := (acc.filter (fun t => t.src == k)).map (·.row)

theorem step2 (keys : List Str) (acc : List RT) (hacc : ∀ x ∈ acc, x.src ∈ keys) (t : RT) :
    gAppend (gEnsure (mk keys (rowsOf acc)) t.src) t.src t.row = mk (Table.addUniq keys t.src) (rowsOf (acc ++ [t])) := by
  unfold gEnsure
  rw [any_mk]
  unfold Table.addUniq
  by_cases h : keys.contains t.src = true
  · simp only [h, if_true, gAppend, mk, List.map_map]
    apply List.map_congr_left
    intro a _
    by_cases e : a = t.src
    · subst e; simp [rowsOf, List.filter_append, List.filter_cons]
    · have e' : ¬ t.src = a := fun x => e x.symm
      simp [e, e', rowsOf, List.filter_append, List.filter_cons]
  · have hn : t.src ∉ keys := by simpa using h
    simp only [h, Bool.false_eq_true, if_false, gAppend, mk, List.map_append, List.map_map, List.map_cons, List.map_nil]
    congr 1
    · apply List.map_congr_left
      intro a ha
      have e : ¬ a = t.src := fun x => hn (x ▸ ha)
      have e' : ¬ t.src = a := fun x => e x.symm
      simp [e, e', rowsOf, List.filter_append, List.filter_cons]
    · have hnone : acc.filter (fun x => x.src == t.src) = [] := by
        apply List.filter_eq_nil_iff.2
        intro x hx
        have : x.src ≠ t.src := fun e => hn (e ▸ hacc x hx)
        simpa using this
      simp [rowsOf, List.filter_append, List.filter_cons, hnone]

theorem mem_addUniq (l : List Str) (x y : Str) : y ∈ Table.addUniq l x ↔ y ∈ l ∨ y = x := by
  unfold Table.addUniq
  by_cases h : l.contains x = true
  · have hx : x ∈ l := by simpa using h
    simp only [h, if_true]
    constructor
    · exact Or.inl
    · rintro (h1 | h1)
      · exact h1
      · subst h1; exact hx
  · have hx : x ∉ l := by simpa using h
    simp [hx]

theorem loop2 (rts : List RT) (keys : List Str) (acc : List RT) (hacc : ∀ x ∈ acc, x.src ∈ keys) :
    rts.foldl (fun g t => if t.isInit then g else gAppend (gEnsure g t.src) t.src t.row) (mk keys (rowsOf acc))
      = mk (((nonInit rts).map (·.src)).foldl Table.addUniq keys) (rowsOf (acc ++ nonInit rts)) := by
  induction rts generalizing keys acc with
  | nil => simp [nonInit]
  | cons t rts ih =>
    simp only [List.foldl_cons]
    by_cases h : t.isInit = true
    · simp only [h, if_true]
      rw [ih keys acc hacc]
      simp [nonInit, List.filter_cons, h]
    · have h' : t.isInit = false := by simpa using h
      simp only [h', Bool.false_eq_true, if_false]
      rw [step2 keys acc hacc t, ih]
      · simp [nonInit, List.filter_cons, h']
      · intro x hx
        rw [mem_addUniq]
        rcases List.mem_append.1 hx with hx | hx
        · exact Or.inl (hacc x hx)
        · simp at hx; subst hx; exact Or.inr rfl

/-- **`GetTransitionTable` = the specification** -/
theorem assemble_eq (rts : List RT) : assemble rts = specRows rts := by
  unfold assemble specRows order uniq
  have h1 := loop1 rts []
  have e0 : ([] : Groups) = mk [] (fun _ => []) := rfl
  have e1 : mk ((initTargets rts).foldl Table.addUniq []) (fun _ => []) = mk ((initTargets rts).foldl Table.addUniq []) (rowsOf []) := by
    simp [mk, rowsOf]
  have h2 := loop2 rts ((initTargets rts).foldl Table.addUniq []) [] (by intro x hx; cases hx)
  simp only
  rw [e0, h1, e1, h2]
  simp only [List.nil_append, List.foldl_append, mk, List.map_map]
  rw [List.flatMap_def]
  congr 1

end Vpp
end KojenVerif
