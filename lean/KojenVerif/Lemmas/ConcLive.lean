import KojenVerif.Lemmas.Conc
/-
  Liveness of the single-worker dispatcher while it is alive: a bounded-response argument.
  `need s it` is an upper bound on the number of steps the worker still has to take before
  the handler call for `it` has begun; no step of any other thread raises it, every step of
  the worker lowers it.
-/
namespace KojenVerif.Conc

def dist : WPhase → Nat
  | .top => 2
  | .popping => 1
  | .got (some _) => 4
  | .got none => 3
  | .handling _ => 3
  | .exited => 0

def need (s : St) (it : Item) : Option Nat :=
  if it ∈ s.begun then some 0
  else if s.workers 0 = .got (some it) then some 1
  else if it ∈ s.queue then some (4 * s.queue.idxOf it + dist (s.workers 0) + 1)
  else none

def isW : Label → Bool
  | .wCheck _ | .wPop _ | .wTest _ | .wEnd _ => true
  | _ => false

def wsteps (ls : List Label) : Nat := (ls.filter isW).length

theorem need_begun (s : St) (it : Item) (h : it ∈ s.begun) : need s it = some 0 := by simp [need, h]
theorem need_got (s : St) (it : Item) (h1 : it ∉ s.begun) (h2 : s.workers 0 = .got (some it)) :
    need s it = some 1 := by simp [need, h1, h2]
theorem need_queue (s : St) (it : Item) (h1 : it ∉ s.begun) (h2 : s.workers 0 ≠ .got (some it))
    (h3 : it ∈ s.queue) : need s it = some (4 * s.queue.idxOf it + dist (s.workers 0) + 1) := by
  simp [need, h1, h2, h3]

theorem need_cases (s : St) (it : Item) (n : Nat) (h : need s it = some n) :
    (it ∈ s.begun ∧ n = 0) ∨ (it ∉ s.begun ∧ s.workers 0 = .got (some it) ∧ n = 1) ∨
    (it ∉ s.begun ∧ s.workers 0 ≠ .got (some it) ∧ it ∈ s.queue ∧
      n = 4 * s.queue.idxOf it + dist (s.workers 0) + 1) := by
  unfold need at h
  by_cases h1 : it ∈ s.begun
  · rw [if_pos h1] at h; left; exact ⟨h1, by injection h with h; exact h.symm⟩
  · rw [if_neg h1] at h
    by_cases h2 : s.workers 0 = .got (some it)
    · rw [if_pos h2] at h; right; left; exact ⟨h1, h2, by injection h with h; exact h.symm⟩
    · rw [if_neg h2] at h
      by_cases h3 : it ∈ s.queue
      · rw [if_pos h3] at h; right; right; exact ⟨h1, h2, h3, by injection h with h; exact h.symm⟩
      · rw [if_neg h3] at h; cases h

theorem not_shutting (sf : Bool) (s : St) (inv : Inv sf s) (hal : s.destroyer = .alive) : s.shutting = false := by
  cases h : s.shutting with
  | false => rfl
  | true => exact absurd hal (inv.sd.1 h)

/-- once destruction has begun it stays begun -/
theorem step_not_alive (sf : Bool) (s s' : St) (l : Label) (hs : step sf s l = some s')
    (h : s'.destroyer = .alive) : s.destroyer = .alive := by
  cases l with
  | push p =>
    simp only [step] at hs
    split at hs
    · rename_i hg; exact hg.2
    · cases hs
  | wCheck w =>
    simp only [step] at hs
    split at hs
    · simp only [Option.some.injEq] at hs; subst hs; exact h
    · cases hs
  | wPop w =>
    simp only [step] at hs
    split at hs
    · cases hq : s.queue with
      | nil => rw [hq] at hs; simp only [Option.some.injEq] at hs; subst hs; exact h
      | cons a b => rw [hq] at hs; simp only [Option.some.injEq] at hs; subst hs; exact h
    · cases hs
  | wTest w =>
    simp only [step] at hs
    split at hs
    · split at hs
      · by_cases hsd : s.shutting = true
        · rw [if_pos hsd] at hs; simp only [Option.some.injEq] at hs; subst hs; exact h
        · rw [if_neg hsd] at hs; simp only [Option.some.injEq] at hs; subst hs; exact h
      · simp only [Option.some.injEq] at hs; subst hs; exact h
      · cases hs
    · cases hs
  | wEnd w =>
    simp only [step] at hs
    split at hs
    · split at hs
      · simp only [Option.some.injEq] at hs; subst hs; exact h
      · cases hs
    · cases hs
  | dSet =>
    simp only [step] at hs
    split at hs
    · simp only [Option.some.injEq] at hs; subst hs; cases h
    · cases hs
  | dWake =>
    simp only [step] at hs
    split at hs
    · simp only [Option.some.injEq] at hs; subst hs; cases h
    · cases hs
  | dJoin =>
    simp only [step] at hs
    split at hs
    · simp only [Option.some.injEq] at hs; subst hs; cases h
    · cases hs
  | dDestroyDerived =>
    cases sf with
    | true =>
      simp only [step, if_true] at hs
      split at hs
      · simp only [Option.some.injEq] at hs; subst hs; cases h
      · cases hs
    | false =>
      simp only [step, Bool.false_eq_true, if_false] at hs
      split at hs
      · rename_i hg; exact hg.2
      · cases hs

theorem idxOf_cons_ne (it x : Item) (rest : List Item) (h : x ≠ it) :
    (x :: rest).idxOf it = rest.idxOf it + 1 := by
  have : (x == it) = false := by simpa using h
  rw [List.idxOf_cons, this]; rfl

/-- **The variant.** -/
theorem step_need (sf : Bool) (s s' : St) (l : Label) (it : Item) (n : Nat)
    (inv : Inv sf s) (hn : s.nworkers = 1) (hs : step sf s l = some s')
    (hal' : s'.destroyer = .alive) (hneed : need s it = some n) :
    ∃ n', need s' it = some n' ∧ n' ≤ n ∧ (isW l = true → n = 0 ∨ n' < n) := by
  have hal := step_not_alive sf s s' l hs hal'
  have hsh := not_shutting sf s inv hal
  cases l with
  | push p =>
    simp only [step] at hs
    split at hs
    · simp only [Option.some.injEq] at hs; subst hs
      rcases need_cases s it n hneed with ⟨h1, rfl⟩ | ⟨h1, h2, rfl⟩ | ⟨h1, h2, h3, rfl⟩
      · exact ⟨0, need_begun _ _ h1, Nat.le_refl _, fun h => by cases h⟩
      · exact ⟨1, need_got _ _ h1 h2, Nat.le_refl _, fun h => by cases h⟩
      · refine ⟨_, need_queue _ _ h1 h2 (List.mem_append_left _ h3), ?_, fun h => by cases h⟩
        show 4 * (s.queue ++ [(p, s.next p)]).idxOf it + dist (s.workers 0) + 1 ≤ _
        rw [List.idxOf_append, if_pos h3]
        exact Nat.le_refl _
    · cases hs
  | wCheck w =>
    simp only [step] at hs
    split at hs
    · rename_i hg
      have hw : w = 0 := by omega
      subst hw
      simp only [Option.some.injEq] at hs; subst hs
      rcases need_cases s it n hneed with ⟨h1, rfl⟩ | ⟨h1, h2, rfl⟩ | ⟨h1, h2, h3, rfl⟩
      · exact ⟨0, need_begun _ _ h1, Nat.le_refl _, fun _ => Or.inl rfl⟩
      · rw [hg.2] at h2; cases h2
      · refine ⟨_, need_queue _ _ h1 ?_ h3, ?_, fun _ => Or.inr ?_⟩
        · simp [setW_same, hsh]
        · simp [setW_same, hsh, hg.2, dist]
        · simp [setW_same, hsh, hg.2, dist]
    · cases hs
  | wPop w =>
    simp only [step] at hs
    split at hs
    · rename_i hg
      have hw : w = 0 := by omega
      subst hw
      rcases need_cases s it n hneed with ⟨h1, rfl⟩ | ⟨h1, h2, rfl⟩ | ⟨h1, h2, h3, rfl⟩
      · cases hq : s.queue with
        | nil => rw [hq] at hs; simp only [Option.some.injEq] at hs; subst hs
                 exact ⟨0, need_begun _ _ h1, Nat.le_refl _, fun _ => Or.inl rfl⟩
        | cons a b => rw [hq] at hs; simp only [Option.some.injEq] at hs; subst hs
                      exact ⟨0, need_begun _ _ h1, Nat.le_refl _, fun _ => Or.inl rfl⟩
      · rw [hg.2.1] at h2; cases h2
      · cases hq : s.queue with
        | nil => rw [hq] at h3; cases h3
        | cons x rest =>
          rw [hq] at hs; simp only [Option.some.injEq] at hs; subst hs
          by_cases hx : x = it
          · subst hx
            refine ⟨1, need_got _ _ h1 (by simp [setW_same]), ?_, fun _ => Or.inr ?_⟩ <;>
              simp [hg.2.1, dist]
          · have h3' : it ∈ rest := by
              rw [hq] at h3
              rcases List.mem_cons.1 h3 with e | e
              · exact absurd e.symm hx
              · exact e
            refine ⟨_, need_queue _ _ h1 ?_ h3', ?_, fun _ => Or.inr ?_⟩
            · simp only [setW_same]
              intro e; injection e with e; injection e with e; exact hx e
            · show 4 * rest.idxOf it + dist (setW s.workers 0 (.got (some x)) 0) + 1 ≤ 4 * (x :: rest).idxOf it + dist (s.workers 0) + 1
              rw [idxOf_cons_ne it x rest hx, setW_same, hg.2.1]; simp [dist]; omega
            · show 4 * rest.idxOf it + dist (setW s.workers 0 (.got (some x)) 0) + 1 < 4 * (x :: rest).idxOf it + dist (s.workers 0) + 1
              rw [idxOf_cons_ne it x rest hx, setW_same, hg.2.1]; simp [dist]; omega
    · cases hs
  | wTest w =>
    simp only [step] at hs
    split at hs
    · rename_i hg
      have hw : w = 0 := by omega
      subst hw
      cases hph : s.workers 0 with
      | got o =>
        rw [hph] at hs
        cases o with
        | none =>
          simp only [Option.some.injEq] at hs; subst hs
          rcases need_cases s it n hneed with ⟨h1, rfl⟩ | ⟨h1, h2, rfl⟩ | ⟨h1, h2, h3, rfl⟩
          · exact ⟨0, need_begun _ _ h1, Nat.le_refl _, fun _ => Or.inl rfl⟩
          · rw [hph] at h2; cases h2
          · refine ⟨_, need_queue _ _ h1 (by simp [setW_same]) h3, ?_, fun _ => Or.inr ?_⟩ <;>
              simp [setW_same, hph, dist]
        | some x =>
          simp only [hsh, Bool.false_eq_true, if_false, Option.some.injEq] at hs; subst hs
          rcases need_cases s it n hneed with ⟨h1, rfl⟩ | ⟨h1, h2, rfl⟩ | ⟨h1, h2, h3, rfl⟩
          · exact ⟨0, need_begun _ _ (List.mem_append_left _ h1), Nat.le_refl _, fun _ => Or.inl rfl⟩
          · rw [hph] at h2
            injection h2 with h2; injection h2 with h2; subst h2
            exact ⟨0, need_begun _ _ (by simp), by omega, fun _ => Or.inr (by omega)⟩
          · have hx : x ≠ it := by
              intro e; subst e; exact h2 hph
            refine ⟨_, need_queue _ _ ?_ (by simp [setW_same]) h3, ?_, fun _ => Or.inr ?_⟩
            · simp [h1]; exact fun e => hx e.symm
            · simp [setW_same, hph, dist]
            · simp [setW_same, hph, dist]
      | top => rw [hph] at hs; cases hs
      | popping => rw [hph] at hs; cases hs
      | handling x => rw [hph] at hs; cases hs
      | exited => rw [hph] at hs; cases hs
    · cases hs
  | wEnd w =>
    simp only [step] at hs
    split at hs
    · rename_i hg
      have hw : w = 0 := by omega
      subst hw
      cases hph : s.workers 0 with
      | handling x =>
        rw [hph] at hs
        simp only [Option.some.injEq] at hs; subst hs
        rcases need_cases s it n hneed with ⟨h1, rfl⟩ | ⟨h1, h2, rfl⟩ | ⟨h1, h2, h3, rfl⟩
        · exact ⟨0, need_begun _ _ h1, Nat.le_refl _, fun _ => Or.inl rfl⟩
        · rw [hph] at h2; cases h2
        · refine ⟨_, need_queue _ _ h1 (by simp [setW_same]) h3, ?_, fun _ => Or.inr ?_⟩ <;>
            simp [setW_same, hph, dist]
      | top => rw [hph] at hs; cases hs
      | popping => rw [hph] at hs; cases hs
      | got o => rw [hph] at hs; cases hs
      | exited => rw [hph] at hs; cases hs
    · cases hs
  | dSet =>
    simp only [step] at hs
    split at hs
    · simp only [Option.some.injEq] at hs; subst hs; cases hal'
    · cases hs
  | dWake =>
    simp only [step] at hs
    split at hs
    · simp only [Option.some.injEq] at hs; subst hs; cases hal'
    · cases hs
  | dJoin =>
    simp only [step] at hs
    split at hs
    · simp only [Option.some.injEq] at hs; subst hs; cases hal'
    · cases hs
  | dDestroyDerived =>
    cases sf with
    | true =>
      simp only [step, if_true] at hs
      split at hs
      · simp only [Option.some.injEq] at hs; subst hs; cases hal'
      · cases hs
    | false =>
      simp only [step, Bool.false_eq_true, if_false] at hs
      split at hs
      · simp only [Option.some.injEq] at hs; subst hs
        rcases need_cases s it n hneed with ⟨h1, rfl⟩ | ⟨h1, h2, rfl⟩ | ⟨h1, h2, h3, rfl⟩
        · exact ⟨0, need_begun _ _ h1, Nat.le_refl _, fun h => by cases h⟩
        · exact ⟨1, need_got _ _ h1 h2, Nat.le_refl _, fun h => by cases h⟩
        · exact ⟨_, need_queue _ _ h1 h2 h3, Nat.le_refl _, fun h => by cases h⟩
      · cases hs

theorem step_nworkers (sf : Bool) (s s' : St) (l : Label) (hs : step sf s l = some s') :
    s'.nworkers = s.nworkers := by
  cases l with
  | push p =>
    simp only [step] at hs
    split at hs
    · simp only [Option.some.injEq] at hs; subst hs; rfl
    · cases hs
  | wCheck w =>
    simp only [step] at hs
    split at hs
    · simp only [Option.some.injEq] at hs; subst hs; rfl
    · cases hs
  | wPop w =>
    simp only [step] at hs
    split at hs
    · cases hq : s.queue with
      | nil => rw [hq] at hs; simp only [Option.some.injEq] at hs; subst hs; rfl
      | cons a b => rw [hq] at hs; simp only [Option.some.injEq] at hs; subst hs; rfl
    · cases hs
  | wTest w =>
    simp only [step] at hs
    split at hs
    · split at hs
      · by_cases hsd : s.shutting = true
        · rw [if_pos hsd] at hs; simp only [Option.some.injEq] at hs; subst hs; rfl
        · rw [if_neg hsd] at hs; simp only [Option.some.injEq] at hs; subst hs; rfl
      · simp only [Option.some.injEq] at hs; subst hs; rfl
      · cases hs
    · cases hs
  | wEnd w =>
    simp only [step] at hs
    split at hs
    · split at hs
      · simp only [Option.some.injEq] at hs; subst hs; rfl
      · cases hs
    · cases hs
  | dSet =>
    simp only [step] at hs
    split at hs
    · simp only [Option.some.injEq] at hs; subst hs; rfl
    · cases hs
  | dWake =>
    simp only [step] at hs
    split at hs
    · simp only [Option.some.injEq] at hs; subst hs; rfl
    · cases hs
  | dJoin =>
    simp only [step] at hs
    split at hs
    · simp only [Option.some.injEq] at hs; subst hs; rfl
    · cases hs
  | dDestroyDerived =>
    cases sf with
    | true =>
      simp only [step, if_true] at hs
      split at hs
      · simp only [Option.some.injEq] at hs; subst hs; rfl
      · cases hs
    | false =>
      simp only [step, Bool.false_eq_true, if_false] at hs
      split at hs
      · simp only [Option.some.injEq] at hs; subst hs; rfl
      · cases hs

theorem run_nworkers (sf : Bool) (ls : List Label) (s0 s : St) (hr : run sf s0 ls = some s) :
    s.nworkers = s0.nworkers := by
  induction ls generalizing s0 with
  | nil => simp [run] at hr; subst hr; rfl
  | cons l ls ih =>
    simp only [run] at hr
    cases hst : step sf s0 l with
    | none => rw [hst] at hr; cases hr
    | some s1 =>
      rw [hst] at hr
      rw [ih s1 hr, step_nworkers sf s0 s1 l hst]


theorem run_not_alive (sf : Bool) (ls : List Label) (s s' : St) (hr : run sf s ls = some s')
    (h : s'.destroyer = .alive) : s.destroyer = .alive := by
  induction ls generalizing s with
  | nil => simp [run] at hr; subst hr; exact h
  | cons l ls ih =>
    simp only [run] at hr
    cases hst : step sf s l with
    | none => rw [hst] at hr; cases hr
    | some s1 =>
      rw [hst] at hr
      exact step_not_alive sf s s1 l hst (ih s1 hr)

theorem wsteps_cons (l : Label) (ls : List Label) :
    wsteps (l :: ls) = wsteps ls + (if isW l then 1 else 0) := by
  unfold wsteps
  by_cases h : isW l = true <;> simp [List.filter_cons, h]

theorem run_need (sf : Bool) (ls : List Label) (s s' : St) (it : Item) (n : Nat)
    (inv : Inv sf s) (hn : s.nworkers = 1) (hr : run sf s ls = some s')
    (hal' : s'.destroyer = .alive) (hneed : need s it = some n) :
    ∃ n', need s' it = some n' ∧ n' ≤ n - wsteps ls := by
  induction ls generalizing s n with
  | nil => simp [run] at hr; subst hr; exact ⟨n, hneed, by simp [wsteps]⟩
  | cons l ls ih =>
    simp only [run] at hr
    cases hst : step sf s l with
    | none => rw [hst] at hr; cases hr
    | some s1 =>
      rw [hst] at hr
      have hal1 := run_not_alive sf ls s1 s' hr hal'
      obtain ⟨n1, hn1, hle, hdec⟩ := step_need sf s s1 l it n inv hn hst hal1 hneed
      have hn1w : s1.nworkers = 1 := by rw [step_nworkers sf s s1 l hst]; exact hn
      obtain ⟨n', hn', hle'⟩ := ih s1 n1 (step_inv sf s s1 l inv hst) hn1w hr hn1
      refine ⟨n', hn', ?_⟩
      rw [wsteps_cons]
      by_cases hw : isW l = true
      · rw [if_pos hw]
        rcases hdec hw with h0 | hlt <;> omega
      · rw [if_neg hw]; omega

end KojenVerif.Conc
