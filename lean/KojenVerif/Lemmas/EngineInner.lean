import KojenVerif.Lemmas.EngineBlock
import KojenVerif.Lemmas.Order
/-
  `innerexpand_secondfiltering` on a block body whose lines carry name / counter tags only.
-/
namespace KojenVerif
namespace Engine
open Str

theorem pyReplace_of_not_contains (pat rep s : Str) (hne : pat ≠ []) (h : contains pat s = false) :
    pyReplace pat rep s = s := by
  unfold pyReplace
  have : pat.isEmpty = false := by cases pat <;> simp_all
  simp only [this, Bool.false_eq_true, if_false]
  exact replaceAux_of_not_contains pat rep hne s h

/-- the chain of replacements with bracket-less keys -/
def toPat (chain : List (Str × Str)) : List (Str × Str) := chain.map (fun kv => (tagPat kv.1, kv.2))

structure ChainOK (chain : List (Str × Str)) : Prop where
  key : ∀ kv ∈ chain, Clean kv.1 ∧ NoEq kv.1
  val : ∀ kv ∈ chain, Clean kv.2

theorem applySubst_renderLine (chain : List (Str × Str)) (hc : ChainOK chain) (l : Spec.SLine) (h : LineOK l) :
    applySubst (toPat chain) (Spec.renderLine l) = Spec.renderLine (substChain chain l) ∧ LineOK (substChain chain l) := by
  induction chain generalizing l with
  | nil => exact ⟨rfl, h⟩
  | cons kv chain ih =>
    have hk := hc.key kv (by simp)
    have hv := hc.val kv (by simp)
    have hc' : ChainOK chain := ⟨fun x hx => hc.key x (by simp [hx]), fun x hx => hc.val x (by simp [hx])⟩
    have h1 := pyReplace_renderLine kv.1 kv.2 hk.1 hk.2 l h
    have ok1 := substOne_ok kv.1 kv.2 hv l h
    have := ih hc' (substOne kv.1 kv.2 l) ok1
    simp only [applySubst, toPat, List.map_cons, List.foldl_cons, substChain] at this ⊢
    rw [h1]
    exact this

/-- the keys of `smNameChain` without brackets -/
def smKeys (name : Str) (alpha cnt : Nat) : List (Str × Str) :=
  [ (T "stateName", camelSmall name), (T "STATENAME", name),
    (T "eventName", camelSmall name), (T "STATE_NAME", snakeCase name),
    (T "EVENTNAME", name), (T "eventName", camelSmall name),
    (T "EVENT_NAME", snakeCase name),
    (T "ACTIONNAME", name), (T "actionName", camelSmall name), (T "ACTION_NAME", snakeCase name),
    (T "GUARDNAME", name), (T "guardName", camelSmall name), (T "GUARD_NAME", snakeCase name),
    (T "ALPH", [alpha]), (T "NUM", natToStr cnt) ]

theorem smNameChain_eq (name : Str) (alpha cnt : Nat) : smNameChain name alpha cnt = toPat (smKeys name alpha cnt) := rfl

theorem lookupS_append (a b : List (Str × Str)) (n : Str) :
    Spec.lookupS (a ++ b) n = (Spec.lookupS a n).orElse (fun _ => Spec.lookupS b n) := by
  induction a with
  | nil => simp [Spec.lookupS]
  | cons kv a ih =>
    simp only [Spec.lookupS, List.cons_append, List.find?_cons] at ih ⊢
    by_cases h : (kv.1 == n) = true
    · simp [h]
    · simp only [h]; exact ih

/-- a second entry for a key that an earlier part of the list already answers is never consulted -/
theorem lookupS_dup (a b : List (Str × Str)) (k v n : Str) (h : (Spec.lookupS a k).isSome = true) :
    Spec.lookupS (a ++ (k, v) :: b) n = Spec.lookupS (a ++ b) n := by
  rw [lookupS_append, lookupS_append]
  cases ha : Spec.lookupS a n with
  | some x => simp
  | none =>
    simp only [Option.orElse]
    simp only [Spec.lookupS, List.find?_cons]
    by_cases hk : (k == n) = true
    · have : k = n := by simpa using hk
      subst this
      rw [ha] at h; cases h
    · simp [hk]

/-- the engine's chain and the specification's dictionary answer every name alike -/
theorem lookup_smKeys (name : Str) (idx : Nat) (n : Str) :
    Spec.lookupS (smKeys name (alphaOf idx) idx) n = Spec.lookupS (Spec.nameTags name ++ Spec.counterTags idx) n := by
  have e1 : smKeys name (alphaOf idx) idx =
      [ (T "stateName", camelSmall name), (T "STATENAME", name), (T "eventName", camelSmall name),
        (T "STATE_NAME", snakeCase name), (T "EVENTNAME", name) ] ++ (T "eventName", camelSmall name) ::
      ([ (T "EVENT_NAME", snakeCase name), (T "ACTIONNAME", name), (T "actionName", camelSmall name), (T "ACTION_NAME", snakeCase name),
         (T "GUARDNAME", name), (T "guardName", camelSmall name), (T "GUARD_NAME", snakeCase name) ] ++ Spec.counterTags idx) := rfl
  have e2 : Spec.nameTags name ++ Spec.counterTags idx =
      [ (T "stateName", camelSmall name), (T "STATENAME", name), (T "eventName", camelSmall name),
        (T "STATE_NAME", snakeCase name), (T "EVENTNAME", name) ] ++
      ([ (T "EVENT_NAME", snakeCase name), (T "ACTIONNAME", name), (T "actionName", camelSmall name), (T "ACTION_NAME", snakeCase name),
         (T "GUARDNAME", name), (T "guardName", camelSmall name), (T "GUARD_NAME", snakeCase name) ] ++ Spec.counterTags idx) := rfl
  rw [e1, e2]
  apply lookupS_dup
  have a : (T "stateName" == T "eventName") = false := by decide
  have b : (T "STATENAME" == T "eventName") = false := by decide
  simp [Spec.lookupS, List.find?_cons, a, b]

end Engine
end KojenVerif

namespace KojenVerif
namespace Engine
open Str

/-- the substituted line mentions none of the signature / member / documentation / attribute
    tags (`innerexpand_secondfiltering` consults these on the text) -/
structure RichFree (nl : Str) : Prop where
  sig : hasSpecificTag nl (T "<<<SIGNATURE>>>") = false
  mi : hasSpecificTag nl (T "<<<MEMBERSINSTANTIATE>>>") = false
  mi' : contains (T "<<<MEMBERSINSTANTIATE>>>") nl = false
  ml : hasSpecificTag nl (T "<<<MEMBERSLITEINSTANTIATE>>>") = false
  ml' : contains (T "<<<MEMBERSLITEINSTANTIATE>>>") nl = false
  md' : contains (T "<<<MEMBERSDECLARE>>>") nl = false
  doc : hasSpecificTag nl (T "<<<DOCUMENTATION>>>") = false
  agg : hasSpecificTag nl (T "<<<AGGREGATEINITIALIZATION>>>") = false
  attrT : hasSpecificTag nl (T "<<<ATTRIBUTETYPE>>>") = false
  attrN : hasSpecificTag nl (T "<<<ATTRIBUTENAME>>>") = false
  pyAttr : hasSpecificTag nl (T "<<<PyAttr>>>") = false

/-- the back end answers (does not raise) for member instantiation / declaration -/
structure EnvTotal (env : Env) : Prop where
  mi : ∀ n tc ip inst, ∃ v, env.memberInst n tc ip inst = some v
  md : ∀ n tc pk, ∃ v, env.memberDecl n tc pk = some v

theorem innerLine_noTag (env : Env) (proto : Bool) (name : Str) (alpha cnt : Nat) (line : Line) (h : hasTag line = false) :
    innerLine env proto name alpha cnt line = some (if isSpace line then [] else [line]) := by
  unfold innerLine
  simp only [h, Bool.not_false, if_true]
  by_cases hs : isSpace line = true <;> simp [hs]

theorem innerLine_plain (env : Env) (ht : EnvTotal env) (name : Str) (alpha cnt : Nat) (line : Line)
    (h : hasTag line = true) (hr : RichFree (applySubst (smNameChain name alpha cnt) line)) :
    innerLine env false name alpha cnt line =
      some (if isSpace (applySubst (smNameChain name alpha cnt) line) then [] else [applySubst (smNameChain name alpha cnt) line]) := by
  unfold innerLine
  simp only [h, Bool.not_true, Bool.false_eq_true, if_false]
  generalize hnl : applySubst (smNameChain name alpha cnt) line = nl at hr
  have hsig : doSignature env name nl = some nl := by simp [doSignature, hr.sig]
  obtain ⟨v1, hv1⟩ := ht.mi name (count (T "    ") nl) true (T "data")
  obtain ⟨v2, hv2⟩ := ht.mi name (count (T "    ") nl) false (T "data")
  obtain ⟨v3, hv3⟩ := ht.md name (count (T "    ") nl) false
  have hm1 : doMemberInst env name (count (T "    ") nl) (T "<<<MEMBERSINSTANTIATE>>>") true nl = some nl := by
    simp only [doMemberInst, hr.mi, Bool.false_and, Bool.false_eq_true, if_false, hv1, Option.map_some]
    rw [pyReplace_of_not_contains _ _ _ (by decide) hr.mi']
  have hm2 : doMemberInst env name (count (T "    ") nl) (T "<<<MEMBERSLITEINSTANTIATE>>>") false nl = some nl := by
    simp only [doMemberInst, hr.ml, Bool.false_and, Bool.false_eq_true, if_false, hv2, Option.map_some]
    rw [pyReplace_of_not_contains _ _ _ (by decide) hr.ml']
  simp only [hsig, Option.bind_some, hm1, hm2, Bool.false_eq_true, if_false, hv3, Option.map_some]
  rw [pyReplace_of_not_contains _ _ _ (by decide) hr.md']
  simp only [Option.bind_some, hr.doc, Bool.false_eq_true, if_false, hr.agg, Bool.false_and, hr.attrT, hr.attrN, Bool.or_self, hr.pyAttr]
  by_cases hs : isSpace nl = true <;> simp [hs]

/-! ### a body -/

/-- the dictionary of one element of a state / event / action / guard block -/
def elemDict (name : Str) (idx : Nat) : List (Str × Str) := Spec.nameTags name ++ Spec.counterTags idx

theorem substLine_congr (f g : Str → Option Str → Option Str) (l : Spec.SLine) (h : ∀ n d, f n d = g n d) :
    Spec.substLine f l = Spec.substLine g l := by
  unfold Spec.substLine
  apply List.map_congr_left
  intro s _
  cases s with
  | lit t => rfl
  | tag n d => simp [h n d]

theorem byDict_smKeys (name : Str) (idx : Nat) (l : Spec.SLine) :
    Spec.substLine (Spec.byDict (smKeys name (alphaOf idx) idx)) l = Spec.substLine (Spec.byDict (elemDict name idx)) l := by
  apply substLine_congr
  intro n d
  cases d with
  | none => simp only [Spec.byDict]; exact lookup_smKeys name idx n
  | some d => rfl

/-- conditions on a body line for one element: grammar (angle-free literals, names, defaults;
    no '=' in names), clean values, and no rich tag after substitution -/
structure BodyLineOK (name : Str) (idx : Nat) (i : Spec.BItem) : Prop where
  ok : match i with
    | .line l => LineOK l
    | .blank t => Clean t ∧ isSpace (t ++ [NL]) = true
  chain : ChainOK (smKeys name (alphaOf idx) idx)
  rich : match i with
    | .line l => RichFree (Spec.renderLine (Spec.substLine (Spec.byDict (elemDict name idx)) l))
    | .blank _ => True

theorem innerLine_bitem (env : Env) (ht : EnvTotal env) (name : Str) (idx : Nat) (i : Spec.BItem)
    (h : BodyLineOK name idx i) :
    innerLine env false name (alphaOf idx) idx i.render =
      some ((Spec.bodyFor (elemDict name idx) [i]).map Spec.bitemText) := by
  cases i with
  | blank t =>
    have hk := h.ok
    simp only at hk
    have hnt : hasTag (t ++ [NL]) = false := by
      unfold hasTag tagBodies
      have := tagBodiesAux_clean (t ++ [NL]) [] (hk.1.append clean_nl)
      simp only [List.append_nil] at this
      rw [this]; rfl
    simp only [Spec.BItem.render]
    rw [innerLine_noTag env false name _ idx _ hnt, hk.2]
    simp [Spec.bodyFor]
  | line l =>
    have hk : LineOK l := h.ok
    have hsub := applySubst_renderLine (smKeys name (alphaOf idx) idx) h.chain l hk
    rw [← smNameChain_eq, substChain_eq, byDict_smKeys] at hsub
    simp only [Spec.BItem.render]
    by_cases hT : hasTag (Spec.renderLine l) = true
    · have hr : RichFree (applySubst (smNameChain name (alphaOf idx) idx) (Spec.renderLine l)) := by
        rw [hsub.1]; exact h.rich
      rw [innerLine_plain env ht name _ idx _ hT hr, hsub.1]
      simp only [Spec.bodyFor, List.filterMap_cons, List.filterMap_nil, Spec.lineText]
      by_cases hs : isSpace (Spec.renderLine (Spec.substLine (Spec.byDict (elemDict name idx)) l)) = true
      · simp [hs]
      · simp [hs, Spec.bitemText, Spec.lineText]
    · have hT' : hasTag (Spec.renderLine l) = false := by simpa using hT
      rw [innerLine_noTag env false name _ idx _ hT']
      -- no tag: the substitution is the identity
      have hid : Spec.substLine (Spec.byDict (elemDict name idx)) l = l := by
        unfold hasTag at hT'
        rw [tagBodies_renderLine l hk] at hT'
        have hnone : ∀ s ∈ l, segBody s = none := by
          intro s hs
          cases hb : segBody s with
          | none => rfl
          | some b =>
            have : (l.filterMap segBody) ≠ [] := by
              intro e
              have : b ∈ l.filterMap segBody := List.mem_filterMap.2 ⟨s, hs, hb⟩
              rw [e] at this; cases this
            simp [this] at hT'
        unfold Spec.substLine
        conv => rhs; rw [← List.map_id l]
        apply List.map_congr_left
        intro s hs
        have := hnone s hs
        cases s with
        | lit t => rfl
        | tag n d => cases d <;> simp [segBody] at this
      simp only [Spec.bodyFor, List.filterMap_cons, List.filterMap_nil, Spec.lineText, hid]
      by_cases hs : isSpace (Spec.renderLine l) = true
      · simp [hs]
      · simp [hs, Spec.bitemText, Spec.lineText]

theorem bodyFor_cons (d : List (Str × Str)) (i : Spec.BItem) (body : List Spec.BItem) :
    Spec.bodyFor d (i :: body) = Spec.bodyFor d [i] ++ Spec.bodyFor d body := by
  simp only [Spec.bodyFor, List.filterMap_cons, List.filterMap_nil]
  cases i with
  | blank t => simp
  | line l => split <;> simp

theorem concatOpt_map_some (l : List (List Line)) : concatOpt (l.map some) = some l.flatten := by
  induction l with
  | nil => rfl
  | cons a l ih => simp [concatOpt_some_cons, ih]

/-- all lines of a body for one element -/
theorem innerElem_body (env : Env) (ht : EnvTotal env) (name : Str) (idx : Nat) (body : List Spec.BItem)
    (h : ∀ i ∈ body, BodyLineOK name idx i) :
    innerElem env false (body.map Spec.BItem.render) name idx =
      some ((Spec.bodyFor (elemDict name idx) body).map Spec.bitemText) := by
  unfold innerElem
  induction body with
  | nil => simp [concatOpt, Spec.bodyFor]
  | cons i body ih =>
    have hi := h i (by simp)
    have hb : ∀ j ∈ body, BodyLineOK name idx j := fun j hj => h j (by simp [hj])
    simp only [List.map_cons, List.map_map]
    rw [innerLine_bitem env ht name idx i hi, concatOpt_some_cons]
    have := ih hb
    simp only [List.map_map] at this
    rw [this, bodyFor_cons (elemDict name idx) i body]
    simp

/-- **a per-state / per-event / per-action / per-guard block**: once per element, in the order
    of the list, the element's name in every name tag (in the tag's case variant), its
    zero-based index in `NUM` and its letter in `ALPH`; white-space-only lines dropped -/
theorem innerExpand_names (env : Env) (ht : EnvTotal env) (items : List Str) (body : List Spec.BItem)
    (h : ∀ p ∈ enumFrom 0 items, ∀ i ∈ body, BodyLineOK p.2 p.1 i) :
    innerExpand env false items (body.map Spec.BItem.render) [] =
      some ((((enumFrom 0 items).map (fun p => Spec.bodyFor (elemDict p.2 p.1) body)).flatten).map Spec.bitemText) := by
  unfold innerExpand
  simp only [List.isEmpty_nil, Bool.not_true, Bool.false_eq_true, if_false]
  generalize enumFrom 0 items = ps at h
  induction ps with
  | nil => simp [concatOpt]
  | cons p ps ih =>
    have hp := h p (by simp)
    have hps : ∀ q ∈ ps, ∀ i ∈ body, BodyLineOK q.2 q.1 i := fun q hq => h q (by simp [hq])
    simp only [List.map_cons]
    rw [innerElem_body env ht p.2 p.1 body hp, concatOpt_some_cons, ih hps]
    simp

end Engine
end KojenVerif
