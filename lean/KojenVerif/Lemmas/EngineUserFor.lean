import KojenVerif.Lemmas.EngineUserPass
import KojenVerif.Lemmas.EngineForCount
/-
  `do_user_tags` over a file that also contains FOR blocks with literal parameters: the opening line
  is left as written, the body lines go through the user-tag rule, the closing line stays.
-/
namespace KojenVerif
namespace Engine
open Str

theorem firstWord_FORB (raw : Str) : ((splitOnce [SP] (T "FOR_BEGIN=" ++ raw)).1 == T "IF") = false := by
  have hs : T "FOR_BEGIN=" ++ raw = 70 :: 79 :: (T "R_BEGIN=" ++ raw) := by
    have : T "FOR_BEGIN=" = 70 :: 79 :: T "R_BEGIN=" := by decide
    rw [this]; rfl
  have hif : T "IF" = [73, 70] := by decide
  unfold splitOnce
  rw [hs, hif]
  cases hf : find [SP] (70 :: 79 :: (T "R_BEGIN=" ++ raw)) with
  | none => simp
  | some i =>
    cases i with
    | zero => simp
    | succ i => simp

theorem contains_FORB_delim (ws raw : Str) :
    contains (T "FOR_BEGIN") (Spec.delim ws (T "FOR_BEGIN=" ++ raw)) = true := by
  have e : Spec.delim ws (T "FOR_BEGIN=" ++ raw) = Spec.renderLine [.lit ws, .tag (T "FOR_BEGIN") (some raw)] := by
    simp [Spec.delim, Spec.renderLine, Spec.Seg.render]
    have : T "FOR_BEGIN=" = T "FOR_BEGIN" ++ [61] := by decide
    rw [this]; simp
  rw [e, contains_renderLine' (T "FOR_BEGIN") (kwOK_of _ (by decide))]
  simp only [merge, List.any_cons, segHas, List.any_nil, Bool.or_false]
  have : contains (T "FOR_BEGIN") (T "FOR_BEGIN") = true := by decide
  simp [this]

theorem removeDefault_tag (raw : Str) (hr : Clean raw) (he : NoEq raw) :
    cleanTag (removeDefault (LLL ++ raw ++ GGG)) = raw := by
  unfold removeDefault tagBodies
  have := tagBodiesAux_tag raw [] hr
  simp only [List.append_nil] at this
  rw [this]
  simp only [tagBodiesAux, List.getLast?_singleton]
  rw [splitOnce_eq_plain raw he]
  have e : LLL ++ raw ++ GGG = tagPat raw := rfl
  simp only [e]
  have : pyReplace (tagPat raw) (tagPat raw) (tagPat raw) = tagPat raw := by
    unfold pyReplace
    have hne : (tagPat raw).isEmpty = false := by simp [tagPat, LLL]
    simp only [hne, Bool.false_eq_true, if_false]
    have h2 := replaceAux_tag_eq raw (tagPat raw) [] hr
    have e2 : LLL ++ raw ++ GGG ++ [] = tagPat raw := by simp [tagPat]
    rw [e2] at h2
    rw [h2]; simp [replaceAux]
  rw [this]
  exact cleanTag_tagPat raw hr

/-- the opening line of a FOR block over a literal parameter passes the user-tag loop unchanged -/
theorem userTagStep_forbegin (dict : List (Str × Str)) (isStr : Str → Bool) (fd : List (Str × Str)) (st : UT)
    (ws raw : Str) (hout : st.inIf = false) (hw : Clean ws) (hr : Clean raw) (he : NoEq raw)
    (hd : lookup dict raw = none) (hf : lookup fd raw = none) :
    userTagStep dict isStr fd st (Spec.delim ws (T "FOR_BEGIN=" ++ raw)) =
      some { st with canAppend := true, out := st.out ++ [Spec.delim ws (T "FOR_BEGIN=" ++ raw)] } := by
  have hb : Clean (T "FOR_BEGIN=" ++ raw) := (by decide : Clean (T "FOR_BEGIN=")).append hr
  unfold userTagStep
  have hT : hasTag (Spec.delim ws (T "FOR_BEGIN=" ++ raw)) = true := hasTag_delim ws _ hw hb
  have hFor : hasSpecificTag (Spec.delim ws (T "FOR_BEGIN=" ++ raw)) (T "<<<FOR_BEGIN>>>") = true := by
    unfold hasSpecificTag
    have : cleanTag (T "<<<FOR_BEGIN>>>") = T "FOR_BEGIN" := by decide
    rw [this, hT, contains_FORB_delim ws raw]; rfl
  have hIf : hasControlTag (Spec.delim ws (T "FOR_BEGIN=" ++ raw)) (T "IF") = false := by
    rw [hasControlTag_delim ws _ _ hw hb]; exact firstWord_FORB raw
  simp only [hout, Bool.false_eq_true, if_false, hT, hFor, hIf, Bool.not_true, Bool.and_false, Bool.not_false, Bool.and_true,
    Bool.and_self, if_true]
  rw [extract_delim ws _ EQ hw hb, split_FORB]
  simp only [Option.getD_some]
  rw [removeDefault_tag raw hr he, hd, hf]

/-- the closing line as a plain item -/
def endItem (ws : Str) : Spec.BItem := .line [.lit ws, .tag (T "FOR_END") none]

theorem endItem_render (ws : Str) : (endItem ws).render = Spec.delim ws (T "FOR_END") := by
  simp [endItem, Spec.BItem.render, Spec.delim, Spec.renderLine, Spec.Seg.render]

theorem endItem_userText (dict : List (Str × Str)) (ws : Str) (h : Spec.lookupS dict (T "FOR_END") = none) :
    Spec.userText dict (endItem ws) = Spec.delim ws (T "FOR_END") := by
  simp [Spec.userText, endItem, Spec.BItem.subst, Spec.substLine, Spec.userSubst, h, Spec.bitemText, Spec.lineText,
    Spec.renderLine, Spec.Seg.render, Spec.delim]

/-- a FOR block as the user-tag pass must find it -/
structure ULoopOK (dict fd : List (Str × Str)) (ws : Str) (p : Spec.ForParam) (body : List Spec.BItem) : Prop where
  wsOK : Clean ws
  literal : match p with | .list raw => Clean raw ∧ NoEq raw ∧ lookup dict raw = none ∧ lookup fd raw = none
                         | .count raw => Clean raw ∧ NoEq raw ∧ lookup dict raw = none ∧ lookup fd raw = none
                         | .userTag _ _ => False
  body : ∀ i ∈ body, UserPlain i
  closing : UserPlain (endItem ws)
  notAssigned : Spec.lookupS dict (T "FOR_END") = none

theorem userTagFold_plain_lines (dict : List (Str × Str)) (isStr : Str → Bool) (fd : List (Str × Str))
    (body : List Spec.BItem) (h : ∀ i ∈ body, UserPlain i) (st : UT) (hout : st.inIf = false) (rest : List Line) :
    userTagFold dict isStr fd st (body.map Spec.BItem.render ++ rest) =
      userTagFold dict isStr fd (UT.mk st.inIf st.canElse (if body.isEmpty then st.canAppend else true)
        (st.out ++ body.map (Spec.userText dict))) rest := by
  induction body generalizing st with
  | nil => cases st; simp
  | cons i body ih =>
    have hi := h i (by simp)
    simp only [List.map_cons, List.cons_append, userTagFold]
    rw [userTagStep_body_out dict isStr fd st i hi hout]
    dsimp only
    rw [ih (fun j hj => h j (by simp [hj])) (UT.mk st.inIf st.canElse true (st.out ++ [Spec.userText dict i])) hout]
    simp only [List.isEmpty_cons, Bool.false_eq_true, if_false, List.append_assoc, List.singleton_append]
    cases body <;> simp

/-- the lines the user-tag pass emits for a FOR block with a literal parameter -/
def loopLines (dict : List (Str × Str)) (ws : Str) (p : Spec.ForParam) (body : List Spec.BItem) : List Line :=
  [Spec.delim ws (T "FOR_BEGIN=" ++ p.render)] ++ body.map (Spec.userText dict) ++ [Spec.delim ws (T "FOR_END")]

theorem userTagFold_loop (dict : List (Str × Str)) (isStr : Str → Bool) (fd : List (Str × Str))
    (ws : Str) (p : Spec.ForParam) (body : List Spec.BItem) (h : ULoopOK dict fd ws p body) (st : UT) (hout : st.inIf = false)
    (rest : List Line) :
    userTagFold dict isStr fd st ((Spec.Item.loop ws p body).render ++ rest) =
      userTagFold dict isStr fd (UT.mk st.inIf st.canElse true (st.out ++ loopLines dict ws p body)) rest := by
  have hraw : ∃ raw, p.render = raw ∧ Clean raw ∧ NoEq raw ∧ lookup dict raw = none ∧ lookup fd raw = none := by
    have := h.literal
    cases p with
    | list raw => exact ⟨raw, rfl, this⟩
    | count raw => exact ⟨raw, rfl, this⟩
    | userTag n d => exact absurd this (by simp)
  obtain ⟨raw, hpr, hr, he, hd, hf⟩ := hraw
  simp only [Spec.Item.render, List.append_assoc, List.cons_append, List.nil_append, userTagFold, hpr, loopLines]
  rw [userTagStep_forbegin dict isStr fd st ws raw hout h.wsOK hr he hd hf]
  dsimp only
  rw [userTagFold_plain_lines dict isStr fd body h.body
    (UT.mk st.inIf st.canElse true (st.out ++ [Spec.delim ws (T "FOR_BEGIN=" ++ raw)])) hout]
  simp only [userTagFold]
  have hend := userTagStep_body_out dict isStr fd
    (UT.mk st.inIf st.canElse (if body.isEmpty then true else true)
      (st.out ++ [Spec.delim ws (T "FOR_BEGIN=" ++ raw)] ++ body.map (Spec.userText dict))) (endItem ws) h.closing hout
  rw [endItem_render] at hend
  rw [hend, endItem_userText dict ws h.notAssigned]
  simp

/-- items of a file for the user-tag pass, loops included -/
inductive UItemOK2 (dict fd : List (Str × Str)) : Spec.Item → Prop where
  | base (it : Spec.Item) (h : UItemOK it) : UItemOK2 dict fd it
  | loop (ws : Str) (p : Spec.ForParam) (body : List Spec.BItem) (h : ULoopOK dict fd ws p body) : UItemOK2 dict fd (.loop ws p body)

/-- what the pass leaves of an item -/
def userItemOut (dict : List (Str × Str)) : Spec.Item → List Spec.Item
  | .b i => [.b (i.subst (Spec.userSubst dict))]
  | .cond _ brs els => (Spec.expandCond dict brs els).map (fun i => .b (i.subst (Spec.userSubst dict)))
  | .loop ws p body => [.loop ws p (body.map (Spec.BItem.subst (Spec.userSubst dict)))]
  | it => [it]

theorem userText_render (dict : List (Str × Str)) (i : Spec.BItem) :
    Spec.userText dict i = (i.subst (Spec.userSubst dict)).render := by
  unfold Spec.userText
  exact bitemText_eq _

theorem userTagFold_items2 (dict : List (Str × Str)) (isStr : Str → Bool) (fd : List (Str × Str))
    (items : List Spec.Item) (h : ∀ it ∈ items, UItemOK2 dict fd it) (st : UT) (hout : st.inIf = false) (hce : st.canElse = true) :
    ∃ ca, userTagFold dict isStr fd st (Spec.renderFile items) =
      some { inIf := false, canElse := true, canAppend := ca,
             out := st.out ++ Spec.renderFile (items.flatMap (userItemOut dict)) } := by
  induction items generalizing st with
  | nil =>
    refine ⟨st.canAppend, ?_⟩
    cases st; simp at hout hce; simp [Spec.renderFile, userTagFold, hout, hce]
  | cons it items ih =>
    have hit := h it (by simp)
    have hrest : ∀ x ∈ items, UItemOK2 dict fd x := fun x hx => h x (by simp [hx])
    have er : Spec.renderFile (it :: items) = it.render ++ Spec.renderFile items := by simp [Spec.renderFile]
    have eo : ∀ pre : List Line, Spec.renderFile ((it :: items).flatMap (userItemOut dict)) =
        ((userItemOut dict it).map Spec.Item.render).flatten ++ Spec.renderFile (items.flatMap (userItemOut dict)) := by
      intro _; simp [Spec.renderFile]
    rw [er, eo []]
    cases hit with
    | loop ws p body hl =>
      rw [userTagFold_loop dict isStr fd ws p body hl st hout]
      obtain ⟨ca, hca⟩ := ih hrest (UT.mk st.inIf st.canElse true (st.out ++ loopLines dict ws p body)) hout hce
      refine ⟨ca, ?_⟩
      rw [hca]
      simp only [userItemOut, List.map_cons, List.map_nil, List.flatten_cons, List.flatten_nil, List.append_nil,
        Spec.Item.render, loopLines, List.map_map, List.append_assoc, UT.mk.injEq, true_and, Option.some.injEq]
      congr 3
      apply List.map_congr_left
      intro i _
      exact userText_render dict i
    | base it0 hb =>
      cases hb with
      | b i hi =>
        simp only [Spec.Item.render, List.singleton_append, userTagFold]
        rw [userTagStep_body_out dict isStr fd st i hi hout]
        dsimp only
        obtain ⟨ca, hca⟩ := ih hrest (UT.mk st.inIf st.canElse true (st.out ++ [Spec.userText dict i])) hout hce
        refine ⟨ca, ?_⟩
        rw [hca]
        simp [userItemOut, Spec.Item.render, userText_render]
      | cond ws brs els hne hok hfor =>
        rw [cond_block dict isStr fd ws brs els st hne hok hout hce hfor]
        obtain ⟨ca, hca⟩ := ih hrest (UT.mk false true true (st.out ++ (Spec.expandCond dict brs els).map (Spec.userText dict))) rfl rfl
        refine ⟨ca, ?_⟩
        rw [hca]
        simp only [userItemOut, List.map_map, List.append_assoc, UT.mk.injEq, true_and, Option.some.injEq]
        congr 2
        induction (Spec.expandCond dict brs els) with
        | nil => rfl
        | cons b bs ihb =>
          simp only [List.map_cons, List.flatten_cons, Function.comp, Spec.Item.render, List.singleton_append, userText_render]
          congr 1

/-- **`do_user_tags` on a file of plain lines, conditional blocks and FOR blocks with literal parameters** -/
theorem doUserTags_items2 (dict : List (Str × Str)) (isStr : Str → Bool) (fd : List (Str × Str))
    (items : List Spec.Item) (h : ∀ it ∈ items, UItemOK2 dict fd it) :
    doUserTags dict isStr fd (Spec.renderFile items) = some (Spec.renderFile (items.flatMap (userItemOut dict))) := by
  unfold doUserTags
  obtain ⟨ca, hca⟩ := userTagFold_items2 dict isStr fd items h {} rfl rfl
  rw [hca]; simp

end Engine
end KojenVerif
