import KojenVerif.Lemmas.EnginePipeline
/-
  The load phase on a file of items (single-line values, no two consecutive blank lines), and the
  whole front half of the generator for one file and for a list of files.
-/
namespace KojenVerif
namespace Engine
open Str

def NoNL (s : Str) : Prop := ∀ c ∈ s, c ≠ NL

instance (s : Str) : Decidable (NoNL s) := by unfold NoNL; exact inferInstance

theorem lstripBy_none (p : Nat → Bool) (s : Str) (h : ∀ c ∈ s, p c = false) : lstripBy p s = s := by
  cases s with
  | nil => rfl
  | cons c s => simp [lstripBy, h c (by simp)]

theorem rstripBy_none (p : Nat → Bool) (s : Str) (h : ∀ c ∈ s, p c = false) : rstripBy p s = s := by
  unfold rstripBy
  rw [lstripBy_none p s.reverse (fun c hc => h c (List.mem_reverse.mp hc))]
  simp

theorem splitAux_nl_pass (a : Str) (ha : NoNL a) (cur : Str) :
    splitAllAux NLs 0 a cur = [cur.reverse ++ a] := by
  induction a generalizing cur with
  | nil => simp [splitAllAux]
  | cons c a ih =>
    have hc : c ≠ NL := ha c (by simp)
    have hp : isPrefixB NLs (c :: a) = false := by
      simp [NLs, isPrefixB]; exact fun e => hc e.symm
    simp only [splitAllAux, hp, Bool.false_eq_true, if_false]
    rw [ih (fun x hx => ha x (by simp [hx]))]
    simp

/-- a single-line value goes in as it is -/
theorem preserveLeadingWs_single (line tag text : Str) (h : NoNL text) : preserveLeadingWs line tag text = text := by
  unfold preserveLeadingWs
  split
  · have e1 : rstripChars NLs text = text := by
      unfold rstripChars
      apply rstripBy_none
      intro c hc
      have := h c hc
      simp [NLs, this]
    have e2 : splitAll NLs text = [text] := by
      unfold splitAll
      have : NLs.isEmpty = false := rfl
      simp only [this, Bool.false_eq_true, if_false]
      rw [splitAux_nl_pass text h []]
      simp
    simp only [e1, e2, List.length_singleton, gt_iff_lt, Nat.lt_irrefl, if_false]
  · rfl

theorem processLine_fold (dict : List (Str × Str)) (h : ∀ kv ∈ dict, NoNL kv.2) (line : Line) :
    dict.foldl (fun l kv => pyReplace kv.1 (preserveLeadingWs l kv.1 kv.2) l) line = applySubst dict line := by
  induction dict generalizing line with
  | nil => rfl
  | cons kv dict ih =>
    simp only [List.foldl_cons, applySubst]
    rw [preserveLeadingWs_single line kv.1 kv.2 (h kv (by simp))]
    exact ih (fun x hx => h x (by simp [hx])) _

/-- the line after the global replacements is still one line -/
def OneLine (dict : List (Str × Str)) (line : Line) : Prop := count NLs (applySubst dict line) ≤ 1

instance (dict : List (Str × Str)) (line : Line) : Decidable (OneLine dict line) := by unfold OneLine; exact inferInstance

theorem processLine_single (dict : List (Str × Str)) (h : ∀ kv ∈ dict, NoNL kv.2) (line : Line) (h1 : OneLine dict line) :
    processLine dict line = [applySubst dict line] := by
  unfold processLine
  rw [processLine_fold dict h line]
  have : ¬ (count NLs (applySubst dict line) > 1) := by unfold OneLine at h1; omega
  simp only [this, if_false]

/-- no blank line directly after a blank line -/
def noDouble : Bool → List Line → Bool
  | _, [] => true
  | pb, l :: ls => !(pb && blankL l) && noDouble (blankL l) ls

theorem collapseRef_id (pb : Bool) (ls : List Line) (h : noDouble pb ls = true) : collapseRef pb ls = ls := by
  induction ls generalizing pb with
  | nil => rfl
  | cons l ls ih =>
    simp only [noDouble, Bool.and_eq_true, Bool.not_eq_true'] at h
    simp only [collapseRef, h.1, Bool.false_eq_true, if_false]
    rw [ih _ h.2]

/-- the grammar of a template file for the load phase: no loader directive, single-line values, lines stay
    single lines, no two consecutive blank lines after the replacements -/
structure LoadOK (chain : List (Str × Str)) (items : List Spec.Item) : Prop where
  noDirective : (Spec.renderFile items).any loaderUnsupported = false
  chainOK : ChainOK chain
  valuesOK : ∀ kv ∈ chain, NoNL kv.2
  plain : KeysPlain chain
  wf : ∀ it ∈ items, ItemOK0 chain it
  oneLine : ∀ l ∈ Spec.renderFile items, OneLine (toPat chain) l
  nodbl : noDouble false (Spec.renderFile (items.map (Spec.Item.subst (Spec.byDict chain)))) = true

/-- **the load phase on a file of items**: every global tag replaced by its value, nothing else changed -/
theorem loadFile_items (chain : List (Str × Str)) (items : List Spec.Item) (h : LoadOK chain items) :
    loadFile (toPat chain) (Spec.renderFile items) =
      some (Spec.renderFile (items.map (Spec.Item.subst (Spec.byDict chain)))) := by
  unfold loadFile
  simp only [h.noDirective, Bool.false_eq_true, if_false, Option.some.injEq]
  have hv : ∀ kv ∈ toPat chain, NoNL kv.2 := by
    intro kv hkv
    simp only [toPat, List.mem_map] at hkv
    obtain ⟨x, hx, rfl⟩ := hkv
    exact h.valuesOK x hx
  have hp : ((Spec.renderFile items).map (processLine (toPat chain))).flatten =
      (Spec.renderFile items).map (applySubst (toPat chain)) := by
    have : (Spec.renderFile items).map (processLine (toPat chain)) =
        ((Spec.renderFile items).map (applySubst (toPat chain))).map (fun l => [l]) := by
      rw [List.map_map]
      apply List.map_congr_left
      intro l hl
      exact processLine_single _ hv l (h.oneLine l hl)
    rw [this]
    induction (Spec.renderFile items).map (applySubst (toPat chain)) with
    | nil => rfl
    | cons a r ih => simp only [List.map_cons, List.flatten_cons, ih, List.singleton_append]
  have hm : (Spec.renderFile items).map (applySubst (toPat chain)) =
      Spec.renderFile (items.map (Spec.Item.subst (Spec.byDict chain))) := by
    unfold Spec.renderFile
    rw [List.map_flatten, List.map_map, List.map_map]
    congr 1
    apply List.map_congr_left
    intro it hit
    exact filter_item chain h.chainOK h.plain it (h.wf it hit)
  rw [hp, hm, filterNewlines_eq, collapseRef_id false _ h.nodbl]

theorem mapOpt_map_some {α β γ} (F : β → Option γ) (a : α → β) (b : α → γ) (l : List α) (h : ∀ x ∈ l, F (a x) = some (b x)) :
    mapOpt F (l.map a) = some (l.map b) := by
  induction l with
  | nil => rfl
  | cons x l ih =>
    simp only [List.map_cons, mapOpt, h x (by simp), ih (fun y hy => h y (by simp [hy]))]

/-- one template file of the generator's input -/
structure TFile where
  name : Str
  items : List Spec.Item

def loaded (chain : List (Str × Str)) (f : TFile) : List Spec.Item := f.items.map (Spec.Item.subst (Spec.byDict chain))

/-- the FOR defaults the generator collects over the code model of all files -/
def fdOf (m : Spec.Model) (chain : List (Str × Str)) (files : List TFile) : List (Str × Str) :=
  ((files.map (fun f => Spec.renderFile (secondOut m (loaded chain f)))).flatten).foldl forDefaultsStep []

/-- the grammar of the generator's input -/
structure GenOK (m : Spec.Model) (chain userTags : List (Str × Str)) (files : List TFile) : Prop where
  load : ∀ f ∈ files, LoadOK chain f.items
  rest : ∀ f ∈ files, FileOK m userTags (fdOf m chain files) (loaded chain f)

/-- **the front half of the generator** (everything up to the code model handed to the preservation pass), for a
    list of template files: per file, named by the file-name replacements, the lines of the template with every
    global tag replaced, every block expanded in place, every conditional resolved, every user tag given its
    value / default / left verbatim, every FOR block over a literal list or count unrolled -/
theorem generate_files (env : Env) (ht : EnvTotal env) (m : Spec.Model) (chain fnDict userTags : List (Str × Str))
    (isStr : Str → Bool) (files : List TFile) (h : GenOK m chain userTags files) :
    generate env { dict := toPat chain, fnDict := fnDict, sm := toSm m, userTags := userTags, userTagIsStr := isStr }
        (files.map (fun f => (f.name, Spec.renderFile f.items))) =
      some (files.map (fun f => (fileName fnDict f.name, Spec.renderFile (fileOut m userTags (loaded chain f))))) := by
  unfold generate
  have hcm : mapOpt (fun f : Str × List Line => ((loadFile (toPat chain) f.2).bind (expandSecond env (toSm m))).map
        (fun ls => (fileName fnDict f.1, ls))) (files.map (fun f => (f.name, Spec.renderFile f.items))) =
      some (files.map (fun f => (fileName fnDict f.name, Spec.renderFile (secondOut m (loaded chain f))))) := by
    apply mapOpt_map_some
    intro f hf
    simp only
    rw [loadFile_items chain f.items (h.load f hf)]
    simp only [Option.bind_some]
    have e := expandSecond_items env ht m (loaded chain f) (h.rest f hf).second
    simp only [loaded] at e ⊢
    rw [e]
    rfl
  simp only [hcm]
  have hfd : ((files.map (fun f => (fileName fnDict f.name, Spec.renderFile (secondOut m (loaded chain f))))).map (·.2)).flatten.foldl
      forDefaultsStep [] = fdOf m chain files := by
    unfold fdOf
    congr 2
    rw [List.map_map]
    apply List.map_congr_left
    intro f _
    simp only [Function.comp]
  simp only [hfd]
  apply mapOpt_map_some
  intro f hf
  simp only
  rw [userThenFor_items userTags isStr _ _ (h.rest f hf).user (h.rest f hf).loops]
  rfl

end Engine
end KojenVerif
