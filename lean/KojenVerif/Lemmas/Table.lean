import KojenVerif.Model.Table
/-
  Facts about the table model: insertion-ordered sets, events of a state, state lists.
-/
namespace KojenVerif
namespace Table

theorem mem_addUniq (l : List Str) (x y : Str) : y ∈ addUniq l x ↔ y ∈ l ∨ y = x := by
  unfold addUniq
  split
  · rename_i hc
    have hm : x ∈ l := by simpa using hc
    constructor
    · exact Or.inl
    · rintro (h1 | h1)
      · exact h1
      · subst h1; exact hm
  · simp

theorem nodup_addUniq (l : List Str) (x : Str) (h : l.Nodup) : (addUniq l x).Nodup := by
  unfold addUniq
  split
  · exact h
  · rename_i hc
    have hm : x ∉ l := by simpa using hc
    rw [List.nodup_append]
    refine ⟨h, by simp, ?_⟩
    intro a ha b hb
    simp only [List.mem_singleton] at hb
    subst hb
    intro e; subst e
    exact hm ha

theorem mem_foldl_addUniq (f : Row → Str) (rows : List Row) (init : List Str) (x : Str) :
    x ∈ rows.foldl (fun acc r => addUniq acc (f r)) init ↔ x ∈ init ∨ ∃ r ∈ rows, f r = x := by
  induction rows generalizing init with
  | nil => simp
  | cons r rows ih =>
    simp only [List.foldl_cons]
    rw [ih, mem_addUniq]
    constructor
    · rintro ((h | h) | ⟨r', hr', hf⟩)
      · exact Or.inl h
      · exact Or.inr ⟨r, by simp, h.symm⟩
      · exact Or.inr ⟨r', by simp [hr'], hf⟩
    · rintro (h | ⟨r', hr', hf⟩)
      · exact Or.inl (Or.inl h)
      · simp only [List.mem_cons] at hr'
        rcases hr' with rfl | hr'
        · exact Or.inl (Or.inr hf.symm)
        · exact Or.inr ⟨r', hr', hf⟩

theorem nodup_foldl_addUniq (f : Row → Str) (rows : List Row) (init : List Str) (h : init.Nodup) :
    (rows.foldl (fun acc r => addUniq acc (f r)) init).Nodup := by
  induction rows generalizing init with
  | nil => exact h
  | cons r rows ih => exact ih _ (nodup_addUniq init (f r) h)

theorem mem_eventsOf (t : List Row) (s e : Str) :
    e ∈ eventsOf t s ↔ ∃ r ∈ t, r.noEv = false ∧ r.src = s ∧ r.ev = e := by
  unfold eventsOf
  rw [mem_foldl_addUniq (fun r => r.ev)]
  simp only [List.not_mem_nil, false_or, List.mem_filter, beq_iff_eq, Bool.and_eq_true, Bool.not_eq_true']
  constructor
  · rintro ⟨r, ⟨hr, hn, hs⟩, he⟩; exact ⟨r, hr, hn, hs, he⟩
  · rintro ⟨r, hr, hn, hs, he⟩; exact ⟨r, ⟨hr, hn, hs⟩, he⟩

theorem nodup_eventsOf (t : List Row) (s : Str) : (eventsOf t s).Nodup :=
  nodup_foldl_addUniq (fun r => r.ev) _ [] (by simp)

theorem rowsFor_nil_of_not_mem (t : List Row) (s e : Str) (h : e ∉ eventsOf t s) : rowsFor t s e = [] := by
  unfold rowsFor
  rw [List.filter_eq_nil_iff]
  intro r hr
  simp only [Bool.and_eq_true, beq_iff_eq, not_and, Bool.not_eq_true']
  intro hn he
  exact h ((mem_eventsOf t s e).2 ⟨r, hr, hn.1, hn.2, he⟩)

theorem mem_sourceStates (t : List Row) (s : Str) : s ∈ sourceStates t ↔ ∃ r ∈ t, r.src = s := by
  unfold sourceStates
  rw [mem_foldl_addUniq (fun r => r.src)]
  simp

theorem mem_perStateKeys (t : List Row) (s : Str) : s ∈ perStateKeys t ↔ s ∈ sourceStates t ∨ s ∈ states t := by
  unfold perStateKeys
  simp only [List.mem_append, List.mem_filter, Bool.not_eq_true', List.contains_eq_mem, decide_eq_false_iff_not]
  constructor
  · rintro (h | ⟨h, _⟩)
    · exact Or.inl h
    · exact Or.inr h
  · rintro (h | h)
    · exact Or.inl h
    · by_cases hs : s ∈ sourceStates t
      · exact Or.inl hs
      · exact Or.inr ⟨h, hs⟩

/-- looking a key up in a list of records built from distinct keys -/
theorem find?_map_key {α : Type} (keys : List Str) (mk : Str → α) (key : α → Str)
    (hk : ∀ s, key (mk s) = s) (k : Str) :
    (keys.map mk).find? (fun x => key x == k) = if k ∈ keys then some (mk k) else none := by
  induction keys with
  | nil => simp
  | cons s keys ih =>
    simp only [List.map_cons, List.find?_cons, hk]
    by_cases h : s = k
    · subst h; simp
    · have h' : ¬ k = s := fun e => h e.symm
      have hb : (s == k) = false := by simp [h]
      simp [hb, h', ih]

end Table
end KojenVerif
