import KojenVerif.Lemmas.EngineInner
import KojenVerif.Lemmas.EngineFilter
/-
  `innerexpand_actionsignatures`: a per-action-signature block.
-/
namespace KojenVerif
namespace Engine
open Str

/-- the dictionary of one (action, event) pair -/
def sigDict (a e : Str) (idx : Nat) : List (Str × Str) :=
  Spec.caseTags "ACTIONNAME" "actionName" "ACTION_NAME" a ++
  Spec.caseTags "EVENTNAME" "eventName" "EVENT_NAME" (Spec.sigEvent e) ++ Spec.counterTags idx

theorem sigChain_eq (a e : Str) (idx : Nat) :
    [ (T "<<<actionName>>>", camelSmall a), (T "<<<ACTIONNAME>>>", a), (T "<<<ACTION_NAME>>>", snakeCase a),
      (T "<<<eventName>>>", camelSmall (Spec.sigEvent e)), (T "<<<EVENTNAME>>>", Spec.sigEvent e), (T "<<<EVENT_NAME>>>", snakeCase (Spec.sigEvent e)),
      (T "<<<ALPH>>>", [alphaOf idx]), (T "<<<NUM>>>", natToStr idx) ] = toPat (sigDict a e idx) := rfl

theorem applySubst_clean (chain : List (Str × Str)) (hk : ∀ kv ∈ chain, True) (s : Str) (h : Clean s) :
    applySubst (toPat chain) s = s := by
  induction chain generalizing s with
  | nil => rfl
  | cons kv chain ih =>
    simp only [applySubst, toPat, List.map_cons, List.foldl_cons] at ih ⊢
    have : pyReplace (tagPat kv.1) kv.2 s = s := by
      unfold pyReplace
      have hne : (tagPat kv.1).isEmpty = false := by simp [tagPat, LLL]
      simp only [hne, Bool.false_eq_true, if_false]
      have := replaceAux_noLt kv.1 kv.2 s [] (Clean.noLt h)
      simp only [List.append_nil] at this
      rw [this]; simp [replaceAux]
    rw [this]
    exact ih (fun x _ => trivial) s h

/-- a body item for one pair -/
theorem sigItem (a e : Str) (idx : Nat) (hc : ChainOK (sigDict a e idx)) (i : Spec.BItem)
    (hi : match i with | .line l => LineOK l | .blank t => Clean t) :
    applySubst (toPat (sigDict a e idx)) i.render = Spec.bitemText (i.subst (Spec.byDict (sigDict a e idx))) := by
  cases i with
  | line l =>
    have hl : LineOK l := hi
    simp only [Spec.BItem.render, Spec.BItem.subst, Spec.bitemText, Spec.lineText]
    rw [(applySubst_renderLine _ hc l hl).1, substChain_eq]
  | blank t =>
    have ht : Clean t := hi
    simp only [Spec.BItem.render, Spec.BItem.subst, Spec.bitemText]
    exact applySubst_clean _ (fun _ _ => trivial) _ (ht.append clean_nl)

/-- **a per-action-signature block**: once per (action, event) pair of the table, in order of
    first appearance, every body line kept, ACTIONNAME / EVENTNAME (in their case variants) and
    the counters replaced; an absent event is written `NONE`, `any` as `ANY`. -/
theorem sigExpand_eq (sigs : List (Str × Str)) (body : List Spec.BItem)
    (hb : ∀ i ∈ body, match i with | .line l => LineOK l | .blank t => Clean t)
    (hc : ∀ p ∈ enumFrom 0 sigs, ChainOK (sigDict p.2.1 p.2.2 p.1)) :
    sigExpand sigs (body.map Spec.BItem.render) [] =
      some ((((enumFrom 0 sigs).map (fun p => body.map (Spec.BItem.subst (Spec.byDict (sigDict p.2.1 p.2.2 p.1))))).flatten).map Spec.bitemText) := by
  unfold sigExpand
  simp only [List.isEmpty_nil, Bool.not_true, Bool.false_eq_true, if_false, Option.some.injEq]
  simp only [List.map_flatten, List.map_map]
  congr 1
  apply List.map_congr_left
  intro p hp
  simp only [Function.comp]
  rw [List.map_map]
  apply List.map_congr_left
  intro i hi
  have key := sigItem p.2.1 p.2.2 p.1 (hc p hp) i (hb i hi)
  simp only [Function.comp]
  rw [← key]
  -- the event spelling
  have he : (if p.2.2.isEmpty || lower p.2.2 == T "none" then T "NONE" else if lower p.2.2 == T "any" then T "ANY" else p.2.2) = Spec.sigEvent p.2.2 := rfl
  rw [← sigChain_eq]
  simp only [he]

end Engine
end KojenVerif
