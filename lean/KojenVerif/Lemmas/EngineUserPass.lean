import KojenVerif.Lemmas.EngineIf
/-
  `do_user_tags` over a whole file made of plain lines and conditional blocks.
-/
namespace KojenVerif
namespace Engine
open Str

/-- items `do_user_tags` is proved about here: plain lines and IF blocks -/
inductive UItemOK : Spec.Item → Prop where
  | b (i : Spec.BItem) (h : UserPlain i) : UItemOK (.b i)
  | cond (ws : Str) (brs : List (Str × List Spec.BItem)) (els : Option (List Spec.BItem))
      (hne : brs ≠ []) (hok : CondOK ws brs els)
      (hfor : ∀ p, brs.head? = some p → contains (T "FOR_BEGIN") (Spec.delim ws (T "IF " ++ p.1)) = false) :
      UItemOK (.cond ws brs els)

/-- what the pass emits for an item, before the user-tag rule is applied to each line -/
def userItemPre (dict : List (Str × Str)) : Spec.Item → List Spec.BItem
  | .b i => [i]
  | .cond _ brs els => Spec.expandCond dict brs els
  | _ => []

theorem userTagFold_items (dict : List (Str × Str)) (isStr : Str → Bool) (fd : List (Str × Str))
    (items : List Spec.Item) (h : ∀ it ∈ items, UItemOK it) (st : UT) (hout : st.inIf = false) (hce : st.canElse = true) :
    ∃ ca, userTagFold dict isStr fd st (Spec.renderFile items) =
      some { inIf := false, canElse := true, canAppend := ca,
             out := st.out ++ ((items.map (userItemPre dict)).flatten).map (Spec.userText dict) } := by
  induction items generalizing st with
  | nil =>
    refine ⟨st.canAppend, ?_⟩
    cases st; simp at hout hce; simp [Spec.renderFile, userTagFold, hout, hce]
  | cons it items ih =>
    have hit := h it (by simp)
    have hrest : ∀ x ∈ items, UItemOK x := fun x hx => h x (by simp [hx])
    have er : Spec.renderFile (it :: items) = it.render ++ Spec.renderFile items := by simp [Spec.renderFile]
    rw [er]
    cases hit with
    | b i hi =>
      simp only [Spec.Item.render, List.singleton_append, userTagFold]
      rw [userTagStep_body_out dict isStr fd st i hi hout]
      dsimp only
      have key := ih hrest (UT.mk st.inIf st.canElse true (st.out ++ [Spec.userText dict i])) hout hce
      obtain ⟨ca, hca⟩ := key
      refine ⟨ca, ?_⟩
      rw [hca]; simp [userItemPre]
    | cond ws brs els hne hok hfor =>
      rw [cond_block dict isStr fd ws brs els st hne hok hout hce hfor]
      have key := ih hrest (UT.mk false true true (st.out ++ (Spec.expandCond dict brs els).map (Spec.userText dict))) rfl rfl
      obtain ⟨ca, hca⟩ := key
      refine ⟨ca, ?_⟩
      rw [hca]; simp [userItemPre]

/-- **`do_user_tags` on a file of plain lines and conditional blocks** -/
theorem doUserTags_items (dict : List (Str × Str)) (isStr : Str → Bool) (fd : List (Str × Str))
    (items : List Spec.Item) (h : ∀ it ∈ items, UItemOK it) :
    doUserTags dict isStr fd (Spec.renderFile items) =
      some (((items.map (userItemPre dict)).flatten).map (Spec.userText dict)) := by
  unfold doUserTags
  obtain ⟨ca, hca⟩ := userTagFold_items dict isStr fd items h {} rfl rfl
  rw [hca]; simp

/-! ### non-interference -/

/-- tag names mentioned by a line -/
def mentions (n : Str) : Spec.BItem → Bool
  | .blank _ => false
  | .line l => l.any (fun s => match s with | .tag m _ => m == n | .lit _ => false)

theorem userText_congr (d d' : List (Str × Str)) (i : Spec.BItem)
    (h : ∀ n, mentions n i = true → Spec.lookupS d n = Spec.lookupS d' n) : Spec.userText d i = Spec.userText d' i := by
  cases i with
  | blank t => rfl
  | line l =>
    simp only [Spec.userText, Spec.BItem.subst, Spec.bitemText, Spec.lineText]
    congr 1
    unfold Spec.substLine
    apply List.map_congr_left
    intro s hs
    cases s with
    | lit t => rfl
    | tag n dflt =>
      have : Spec.lookupS d n = Spec.lookupS d' n := by
        apply h n
        simp only [mentions, List.any_eq_true]
        exact ⟨_, hs, by simp⟩
      simp [Spec.userSubst, this]

theorem expandCond_congr (d d' : List (Str × Str)) (brs : List (Str × List Spec.BItem)) (els : Option (List Spec.BItem))
    (h : ∀ n, (Spec.lookupS d n).isSome = (Spec.lookupS d' n).isSome) : Spec.expandCond d brs els = Spec.expandCond d' brs els := by
  unfold Spec.expandCond
  have : (fun (p : Str × List Spec.BItem) => (Spec.lookupS d p.1).isSome) = (fun p => (Spec.lookupS d' p.1).isSome) := by
    funext p; exact h p.1
  rw [this]

theorem userItemPre_congr (d d' : List (Str × Str)) (it : Spec.Item)
    (h : ∀ n, (Spec.lookupS d n).isSome = (Spec.lookupS d' n).isSome) : userItemPre d it = userItemPre d' it := by
  cases it <;> simp [userItemPre, expandCond_congr d d' _ _ h]

end Engine
end KojenVerif
