import KojenVerif.Lemmas.EngineUserFor
import KojenVerif.Lemmas.EngineSecond
/-
  The passes composed over a whole file: second filtering, user-tag pass, FOR expansion.
-/
namespace KojenVerif
namespace Engine
open Str

/-- **`do_user_tags` followed by `do_for` over a whole file** -/
theorem userThenFor_items (dict : List (Str × Str)) (isStr : Str → Bool) (fd : List (Str × Str)) (items : List Spec.Item)
    (hu : ∀ it ∈ items, UItemOK2 dict fd it)
    (hf : ∀ it ∈ items.flatMap (userItemOut dict), ForFileItemOK it) :
    (doUserTags dict isStr fd (Spec.renderFile items)).bind doFor =
      some (Spec.renderFile ((items.flatMap (userItemOut dict)).flatMap forOut)) := by
  rw [doUserTags_items2 dict isStr fd items hu]
  simp only [Option.bind_some]
  exact doFor_items _ hf

/-- what the three passes make of a loaded file -/
def fileOut (m : Spec.Model) (dict : List (Str × Str)) (items : List Spec.Item) : List Spec.Item :=
  ((secondOut m items).flatMap (userItemOut dict)).flatMap forOut

/-- the grammar of a loaded file for the three passes -/
structure FileOK (m : Spec.Model) (dict fd : List (Str × Str)) (items : List Spec.Item) : Prop where
  second : SecondOK m items
  user : ∀ it ∈ secondOut m items, UItemOK2 dict fd it
  loops : ∀ it ∈ (secondOut m items).flatMap (userItemOut dict), ForFileItemOK it

/-- **a loaded template file through the rest of the generator**: every block expanded in place, every
    conditional resolved, every user tag given its value / default / left verbatim, every FOR block over a
    literal list or count unrolled - and nothing else touched -/
theorem file_pipeline (env : Env) (ht : EnvTotal env) (m : Spec.Model) (dict : List (Str × Str)) (isStr : Str → Bool)
    (fd : List (Str × Str)) (items : List Spec.Item) (h : FileOK m dict fd items) :
    ((expandSecond env (toSm m) (Spec.renderFile items)).bind (doUserTags dict isStr fd)).bind doFor =
      some (Spec.renderFile (fileOut m dict items)) := by
  rw [expandSecond_items env ht m items h.second]
  simp only [Option.bind_some]
  exact userThenFor_items dict isStr fd _ h.user h.loops

/-- after the three passes only lines are left -/
theorem fileOut_lines (m : Spec.Model) (dict : List (Str × Str)) (items : List Spec.Item) :
    ∀ it ∈ fileOut m dict items, match it with | .b _ => True | .loop _ (.userTag _ _) _ => True | _ => False := by
  intro it hit
  unfold fileOut at hit
  rw [List.mem_flatMap] at hit
  obtain ⟨u, hu, hout⟩ := hit
  rw [List.mem_flatMap] at hu
  obtain ⟨s, hs, hus⟩ := hu
  -- s is an item after the second filtering; u what the user pass made of it; it what do_for made of u
  cases s with
  | b i =>
    simp only [userItemOut, List.mem_singleton] at hus; subst hus
    simp only [forOut, List.mem_singleton] at hout; subst hout; trivial
  | cond ws brs els =>
    simp only [userItemOut, List.mem_map] at hus
    obtain ⟨i, _, rfl⟩ := hus
    simp only [forOut, List.mem_singleton] at hout; subst hout; trivial
  | loop ws p body =>
    simp only [userItemOut, List.mem_singleton] at hus; subst hus
    simp only [forOut] at hout
    cases he : Spec.expandLoop [] [] p (body.map (Spec.BItem.subst (Spec.userSubst dict))) with
    | none => rw [he] at hout; cases hout
    | some bs =>
      rw [he] at hout
      simp only [List.mem_map] at hout
      obtain ⟨b, _, rfl⟩ := hout; trivial
  | block k ws body =>
    simp only [userItemOut, List.mem_singleton] at hus; subst hus
    simp only [forOut, List.mem_singleton] at hout; subst hout
    exact absurd hs (by
      intro hmem
      have := C16_flat m items _ hmem
      exact this)
  | pst ws body =>
    simp only [userItemOut, List.mem_singleton] at hus; subst hus
    simp only [forOut, List.mem_singleton] at hout; subst hout
    exact absurd hs (by
      intro hmem
      have := C16_flat m items _ hmem
      exact this)
where
  C16_flat (m : Spec.Model) (items : List Spec.Item) :
      ∀ it ∈ secondOut m items, match it with | .block _ _ _ => False | .pst _ _ => False | _ => True := by
    have keep : ∀ (ps : List Pass) (its : List Spec.Item) (it : Spec.Item), it ∈ runPasses m ps its →
        (match it with
         | .block k _ _ => Pass.kind k ∉ ps
         | .pst _ _ => Pass.pst ∉ ps
         | _ => True) := by
      intro ps
      induction ps with
      | nil =>
        intro its it _
        cases it <;> simp
      | cons p ps ih =>
        intro its it hit
        have hrec := ih (its.flatMap (passOut m p)) it hit
        -- membership of `it` in the output of pass `p`
        have hsrc : it ∈ runPasses m ps (its.flatMap (passOut m p)) := hit
        cases it with
        | b i => trivial
        | cond ws brs els => trivial
        | loop ws pr body => trivial
        | block k ws b =>
          simp only [List.mem_cons, not_or]
          refine ⟨?_, hrec⟩
          intro e
          -- a block of kind k cannot survive pass `kind k`: runPasses only shrinks the set of blocks
          exact no_block_after m ps (its.flatMap (passOut m p)) k ws b hsrc (by
            intro x hx
            rw [List.mem_flatMap] at hx
            obtain ⟨src, _, ho⟩ := hx
            subst e
            cases src with
            | block k2 ws2 b2 =>
              simp only [passOut] at ho
              by_cases hp : Pass.kind k = Pass.kind k2
              · simp only [hp, if_true, List.mem_map] at ho
                obtain ⟨y, _, rfl⟩ := ho; intro ws' b'; exact fun h => by cases h
              · simp only [hp, if_false, List.mem_singleton] at ho
                subst ho
                intro ws' b' h; cases h; exact hp rfl
            | pst ws2 b2 =>
              simp only [passOut, if_neg (show ¬ Pass.kind k = Pass.pst by simp), List.mem_singleton] at ho
              subst ho; intro ws' b' h; cases h
            | b i => simp only [passOut, List.mem_singleton] at ho; subst ho; intro ws' b' h; cases h
            | cond ws2 brs els => simp only [passOut, List.mem_singleton] at ho; subst ho; intro ws' b' h; cases h
            | loop ws2 pr body => simp only [passOut, List.mem_singleton] at ho; subst ho; intro ws' b' h; cases h)
        | pst ws b =>
          simp only [List.mem_cons, not_or]
          refine ⟨?_, hrec⟩
          intro e
          exact no_pst_after m ps (its.flatMap (passOut m p)) ws b hsrc (by
            intro x hx
            rw [List.mem_flatMap] at hx
            obtain ⟨src, _, ho⟩ := hx
            subst e
            cases src with
            | pst ws2 b2 =>
              simp only [passOut, if_true, List.mem_map] at ho
              obtain ⟨y, _, rfl⟩ := ho; intro ws' b' h; cases h
            | block k2 ws2 b2 =>
              simp only [passOut, if_neg (show ¬ Pass.pst = Pass.kind k2 by simp), List.mem_singleton] at ho
              subst ho; intro ws' b' h; cases h
            | b i => simp only [passOut, List.mem_singleton] at ho; subst ho; intro ws' b' h; cases h
            | cond ws2 brs els => simp only [passOut, List.mem_singleton] at ho; subst ho; intro ws' b' h; cases h
            | loop ws2 pr body => simp only [passOut, List.mem_singleton] at ho; subst ho; intro ws' b' h; cases h)
    intro it hit
    have := keep passOrder _ it hit
    cases it with
    | b i => trivial
    | cond ws brs els => trivial
    | loop ws pr body => trivial
    | block k ws b => exact this (by cases k <;> simp [passOrder])
    | pst ws b => exact this (by simp [passOrder])
  no_block_after (m : Spec.Model) (ps : List Pass) (its : List Spec.Item) (k : Spec.Kind) (ws : Str) (b : List Spec.BItem)
      (hmem : Spec.Item.block k ws b ∈ runPasses m ps its)
      (hnone : ∀ x ∈ its, ∀ ws' b', x ≠ Spec.Item.block k ws' b') : False := by
    induction ps generalizing its with
    | nil => exact hnone _ hmem ws b rfl
    | cons p ps ih =>
      apply ih (its.flatMap (passOut m p)) hmem
      intro x hx ws' b' e
      subst e
      rw [List.mem_flatMap] at hx
      obtain ⟨src, hsrc, ho⟩ := hx
      cases src with
      | block k2 ws2 b2 =>
        simp only [passOut] at ho
        by_cases hp : p = Pass.kind k2
        · simp only [hp, if_true, List.mem_map] at ho
          obtain ⟨y, _, hy⟩ := ho; cases hy
        · simp only [hp, if_false, List.mem_singleton] at ho
          cases ho
          exact hnone _ hsrc ws' b' rfl
      | pst ws2 b2 =>
        simp only [passOut] at ho
        by_cases hp : p = Pass.pst
        · simp only [hp, if_true, List.mem_map] at ho
          obtain ⟨y, _, hy⟩ := ho; cases hy
        · simp only [hp, if_false, List.mem_singleton] at ho; cases ho
      | b i => simp only [passOut, List.mem_singleton] at ho; cases ho
      | cond ws2 brs els => simp only [passOut, List.mem_singleton] at ho; cases ho
      | loop ws2 pr body => simp only [passOut, List.mem_singleton] at ho; cases ho
  no_pst_after (m : Spec.Model) (ps : List Pass) (its : List Spec.Item) (ws : Str) (b : List Spec.PstItem)
      (hmem : Spec.Item.pst ws b ∈ runPasses m ps its)
      (hnone : ∀ x ∈ its, ∀ ws' b', x ≠ Spec.Item.pst ws' b') : False := by
    induction ps generalizing its with
    | nil => exact hnone _ hmem ws b rfl
    | cons p ps ih =>
      apply ih (its.flatMap (passOut m p)) hmem
      intro x hx ws' b' e
      subst e
      rw [List.mem_flatMap] at hx
      obtain ⟨src, hsrc, ho⟩ := hx
      cases src with
      | pst ws2 b2 =>
        simp only [passOut] at ho
        by_cases hp : p = Pass.pst
        · simp only [hp, if_true, List.mem_map] at ho
          obtain ⟨y, _, hy⟩ := ho; cases hy
        · simp only [hp, if_false, List.mem_singleton] at ho
          cases ho
          exact hnone _ hsrc ws' b' rfl
      | block k2 ws2 b2 =>
        simp only [passOut] at ho
        by_cases hp : p = Pass.kind k2
        · simp only [hp, if_true, List.mem_map] at ho
          obtain ⟨y, _, hy⟩ := ho; cases hy
        · simp only [hp, if_false, List.mem_singleton] at ho; cases ho
      | b i => simp only [passOut, List.mem_singleton] at ho; cases ho
      | cond ws2 brs els => simp only [passOut, List.mem_singleton] at ho; cases ho
      | loop ws2 pr body => simp only [passOut, List.mem_singleton] at ho; cases ho

end Engine
end KojenVerif
