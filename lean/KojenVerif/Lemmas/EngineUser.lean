import KojenVerif.Lemmas.EngineStr
/-
  `replaceUserTags` (string level, after fix e57e3c7) on a rendered line is the per-tag rule of
  the specification.
-/
namespace KojenVerif
namespace Engine
open Str

/-- no '=' -/
def NoEq (s : Str) : Prop := ∀ c ∈ s, c ≠ 61

instance (s : Str) : Decidable (NoEq s) := by unfold NoEq; exact inferInstance

theorem isPrefixB_single (a c : Nat) (x : Str) : isPrefixB [a] (c :: x) = (a == c) := by
  simp [isPrefixB]

theorem find_eq_prefix (n d : Str) (h : NoEq n) : find EQ (n ++ EQ ++ d) = some n.length := by
  induction n with
  | nil => simp [find, isPrefixB, EQ]
  | cons c n ih =>
    have hc : c ≠ 61 := h c (by simp)
    have hn : NoEq n := fun x hx => h x (by simp [hx])
    have hp : isPrefixB EQ (c :: (n ++ EQ ++ d)) = false := by
      rw [EQ, isPrefixB_single]; simp; exact fun e => hc e.symm
    simp only [List.cons_append, find, hp, Bool.false_eq_true, if_false]
    rw [ih hn]; simp

theorem find_eq_none (n : Str) (h : NoEq n) : find EQ n = none := by
  induction n with
  | nil => simp [find, EQ]
  | cons c n ih =>
    have hc : c ≠ 61 := h c (by simp)
    have hn : NoEq n := fun x hx => h x (by simp [hx])
    have hp : isPrefixB EQ (c :: n) = false := by
      rw [EQ, isPrefixB_single]; simp; exact fun e => hc e.symm
    simp only [find, hp, Bool.false_eq_true, if_false, ih hn]

theorem partitionEq_default (n d : Str) (h : NoEq n) : partitionEq (n ++ EQ ++ d) = (n, true, d) := by
  unfold partitionEq
  rw [find_eq_prefix n d h]
  simp [EQ]

theorem partitionEq_plain (n : Str) (h : NoEq n) : partitionEq n = (n, false, []) := by
  unfold partitionEq
  rw [find_eq_none n h]

def segNameOK : Spec.Seg → Prop
  | .tag n _ => NoEq n
  | .lit _ => True

instance : (s : Spec.Seg) → Decidable (segNameOK s)
  | .tag n _ => by unfold segNameOK; exact inferInstance
  | .lit _ => by unfold segNameOK; exact inferInstance

/-- tag names of the line contain no '=' -/
def NamesOK (l : Spec.SLine) : Prop := ∀ s ∈ l, segNameOK s

instance (l : Spec.SLine) : Decidable (NamesOK l) := by unfold NamesOK; exact inferInstance

theorem substBodies_userTagValue (dict : List (Str × Str)) (l : Spec.SLine) (hn : NamesOK l) :
    substBodies (userTagValue dict) l = Spec.substLine (Spec.userSubst dict) l := by
  unfold substBodies Spec.substLine
  apply List.map_congr_left
  intro s hs
  have := hn s hs
  cases s with
  | lit t => simp [segBody]
  | tag n d =>
    have this : NoEq n := this
    cases d with
    | none =>
      simp only [segBody, userTagValue, partitionEq_plain n this, Spec.userSubst, Spec.lookupS]
      cases List.find? (fun kv => kv.1 == n) dict <;> simp
    | some d =>
      have e : n ++ [61] ++ d = n ++ EQ ++ d := rfl
      simp only [segBody, userTagValue, e, partitionEq_default n d this, Spec.userSubst, Spec.lookupS]
      cases List.find? (fun kv => kv.1 == n) dict <;> simp

/-- **`replaceUserTags` on a rendered line = the user-tag rule applied to every tag** -/
theorem replaceUserTags_renderLine (dict : List (Str × Str)) (l : Spec.SLine) (h : LineOK l) (hn : NamesOK l) :
    replaceUserTags dict (Spec.renderLine l) = Spec.renderLine (Spec.substLine (Spec.userSubst dict) l) := by
  unfold replaceUserTags
  rw [subTags_renderLine _ l h, substBodies_userTagValue dict l hn]

end Engine
end KojenVerif
