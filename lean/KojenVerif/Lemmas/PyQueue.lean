import KojenVerif.Model.PyQueue
/-
  Invariants of the threaded state-machine model, for every reachable state.
-/
namespace KojenVerif
namespace PyQueue

def begunOf (src : Src) (s : St) : List Ev := s.begun.filter (fun e => e.1 == src)

def evsOf (src : Src) : List (Option Ev) → List Ev
  | [] => []
  | none :: q => evsOf src q
  | some e :: q => if e.1 == src then e :: evsOf src q else evsOf src q

def queueOf (src : Src) (s : St) : List Ev := evsOf src s.queue

def pendingOf (src : Src) (s : St) : List Ev :=
  match src with
  | none => []
  | some p => match (s.prods p).phase with
    | .waitWorker i => [(some p, i)]
    | _ => []

def triggered (src : Src) (s : St) : Nat :=
  match src with
  | none => s.cbNext
  | some p => (s.prods p).next

/-- every event triggered so far by `src` is in exactly one place — begun, queued, or waiting
    for synchronous processing — and the three places together list them in trigger order -/
def Chain (s : St) : Prop :=
  ∀ src, begunOf src s ++ queueOf src s ++ pendingOf src s = (List.range (triggered src s)).map (fun i => (src, i))

structure Inv (s : St) : Prop where
  chain : Chain s
  curAlive : s.cur ≠ none → s.alive = true
  dead : s.alive = false → s.queue = [] ∧ s.flag = false ∧ s.cur = none
  flagStop : s.flag = true ↔ s.stopper = .notCalled
  phaseFlag : ∀ p, (s.prods p).phase ≠ .idle → s.flag = false
  marker : s.flag = false → s.alive = true → none ∈ s.queue
  noMarker : s.flag = true → none ∉ s.queue
  lock : ∀ p, (∃ i, (s.prods p).phase = .syncProc i) ↔ s.syncOwner = some p
  syncDead : s.syncOwner ≠ none → s.alive = false
  returned : s.stopper = .returned → s.alive = false

theorem evsOf_append (src : Src) (a b : List (Option Ev)) : evsOf src (a ++ b) = evsOf src a ++ evsOf src b := by
  induction a with
  | nil => rfl
  | cons x a ih =>
    cases x with
    | none => simpa [evsOf] using ih
    | some e => by_cases h : e.1 == src <;> simp [evsOf, h, ih]

theorem range_succ_map (src : Src) (n : Nat) :
    (List.range (n + 1)).map (fun i => (src, i)) = (List.range n).map (fun i => (src, i)) ++ [(src, n)] := by
  simp [List.range_succ]

theorem init_inv (totals : Nat → Nat) (cbTotal : Nat) : Inv (init totals cbTotal) := by
  refine ⟨?_, by simp [init], by simp [init], by simp [init], by simp [init], by simp [init], by simp [init], ?_, by simp [init], by simp [init]⟩
  · intro src
    cases src <;> simp [begunOf, queueOf, pendingOf, triggered, init, evsOf]
  · intro p; simp [init]


theorem setProd_same (f : Nat → Prod) (p : Nat) (v : Prod) : setProd f p v p = v := by simp [setProd]
theorem setProd_other (f : Nat → Prod) (p q : Nat) (v : Prod) (h : q ≠ p) : setProd f p v q = f q := by simp [setProd, h]

/-- the worker-side labels and `stopJoin` do not touch producers -/
theorem inv_trig (s s' : St) (p : Nat) (h : Inv s) (hs : step s (.trig p) = some s') : Inv s' := by
  simp only [step] at hs
  split at hs
  · rename_i hg
    obtain ⟨hidle, hlt, hown⟩ := hg
    by_cases hf : s.flag = true
    · rw [if_pos hf] at hs
      simp only [Option.some.injEq] at hs
      subst hs
      refine ⟨?_, h.curAlive, ?_, h.flagStop, ?_, ?_, ?_, ?_, h.syncDead, h.returned⟩
      · intro src
        have hc := h.chain src
        by_cases hsrc : src = some p
        · subst hsrc
          simp only [begunOf, queueOf, pendingOf, triggered, setProd_same, evsOf_append, evsOf, beq_self_eq_true, if_true] at hc ⊢
          rw [hidle] at hc
          simp only [hidle, List.append_nil] at hc ⊢
          rw [range_succ_map, ← hc]
          simp [List.append_assoc]
        · cases src with
          | none => simpa [begunOf, queueOf, pendingOf, triggered, evsOf_append, evsOf] using hc
          | some q =>
            have hq : q ≠ p := fun e => hsrc (by rw [e])
            have hne : ((some p : Src) == some q) = false := by simp; exact fun e => hq e.symm
            simpa [begunOf, queueOf, pendingOf, triggered, evsOf_append, evsOf, setProd_other _ _ _ _ hq, hne] using hc
      · intro hd
        have := h.dead hd
        simp [hf] at this
      · intro q hq
        by_cases hqp : q = p
        · subst hqp; simp [setProd_same, hidle] at hq
        · simp only [setProd_other _ _ _ _ hqp] at hq; exact h.phaseFlag q hq
      · intro hff; simp [hf] at hff
      · intro _
        have := h.noMarker hf
        simp [this]
      · intro q
        by_cases hqp : q = p
        · subst hqp
          simp only [setProd_same, hidle]
          have := (h.lock q)
          rw [hidle] at this
          simpa using this
        · simp only [setProd_other _ _ _ _ hqp]; exact h.lock q
    · have hf' : s.flag = false := by simpa using hf
      rw [if_neg hf] at hs
      simp only [Option.some.injEq] at hs
      subst hs
      refine ⟨?_, h.curAlive, h.dead, h.flagStop, ?_, h.marker, h.noMarker, ?_, h.syncDead, h.returned⟩
      · intro src
        have hc := h.chain src
        by_cases hsrc : src = some p
        · subst hsrc
          simp only [begunOf, queueOf, pendingOf, triggered, setProd_same] at hc ⊢
          rw [hidle] at hc
          simp only [List.append_nil] at hc
          rw [range_succ_map, ← hc]
        · cases src with
          | none => simpa [begunOf, queueOf, pendingOf, triggered] using hc
          | some q =>
            have hq : q ≠ p := fun e => hsrc (by rw [e])
            simpa [begunOf, queueOf, pendingOf, triggered, setProd_other _ _ _ _ hq] using hc
      · intro q _; exact hf'
      · intro q
        by_cases hqp : q = p
        · subst hqp
          simp only [setProd_same]
          have := (h.lock q)
          rw [hidle] at this
          constructor
          · rintro ⟨i, hi⟩; cases hi
          · intro ho; simp only [hown] at ho; cases ho
        · simp only [setProd_other _ _ _ _ hqp]; exact h.lock q
  · cases hs


theorem inv_syncBegin (s s' : St) (p : Nat) (h : Inv s) (hs : step s (.syncBegin p) = some s') : Inv s' := by
  simp only [step] at hs
  split at hs
  · rename_i i hph
    split at hs
    · rename_i hg
      obtain ⟨hdead, hown⟩ := hg
      simp only [Option.some.injEq] at hs
      subst hs
      obtain ⟨hq0, hf0, hc0⟩ := h.dead hdead
      refine ⟨?_, h.curAlive, h.dead, h.flagStop, ?_, h.marker, h.noMarker, ?_, ?_, h.returned⟩
      · intro src
        have hc := h.chain src
        by_cases hsrc : src = some p
        · subst hsrc
          simp only [begunOf, queueOf, pendingOf, triggered, setProd_same, List.filter_append] at hc ⊢
          rw [hph] at hc
          simp only [hq0, evsOf, List.append_nil, List.nil_append] at hc ⊢
          rw [← hc]
          simp
        · cases src with
          | none =>
            simpa [begunOf, queueOf, pendingOf, triggered, List.filter_append] using hc
          | some q =>
            have hq : q ≠ p := fun e => hsrc (by rw [e])
            have hne : ((some p : Src) == some q) = false := by simp; exact fun e => hq e.symm
            simpa [begunOf, queueOf, pendingOf, triggered, List.filter_append, setProd_other _ _ _ _ hq, hne] using hc
      · intro q _; exact hf0
      · intro q
        by_cases hqp : q = p
        · subst hqp; simp [setProd_same]
        · simp only [setProd_other _ _ _ _ hqp]
          constructor
          · intro hx
            have := (h.lock q).1 hx
            rw [hown] at this; cases this
          · intro ho
            simp only [Option.some.injEq] at ho
            exact absurd ho.symm hqp
      · intro _; exact hdead
    · cases hs
  · cases hs

theorem inv_syncEnd (s s' : St) (p : Nat) (h : Inv s) (hs : step s (.syncEnd p) = some s') : Inv s' := by
  simp only [step] at hs
  split at hs
  · rename_i i hph
    split at hs
    · rename_i hown
      simp only [Option.some.injEq] at hs
      subst hs
      refine ⟨?_, h.curAlive, h.dead, h.flagStop, ?_, h.marker, h.noMarker, ?_, ?_, h.returned⟩
      · intro src
        have hc := h.chain src
        by_cases hsrc : src = some p
        · subst hsrc
          simp only [begunOf, queueOf, pendingOf, triggered, setProd_same] at hc ⊢
          rw [hph] at hc
          simpa using hc
        · cases src with
          | none => simpa [begunOf, queueOf, pendingOf, triggered] using hc
          | some q =>
            have hq : q ≠ p := fun e => hsrc (by rw [e])
            simpa [begunOf, queueOf, pendingOf, triggered, setProd_other _ _ _ _ hq] using hc
      · intro q hq
        by_cases hqp : q = p
        · subst hqp; simp [setProd_same] at hq
        · simp only [setProd_other _ _ _ _ hqp] at hq; exact h.phaseFlag q hq
      · intro q
        by_cases hqp : q = p
        · subst hqp; simp [setProd_same]
        · simp only [setProd_other _ _ _ _ hqp]
          constructor
          · intro hx
            have := (h.lock q).1 hx
            rw [hown] at this
            simp only [Option.some.injEq] at this
            exact absurd this.symm hqp
          · intro ho; cases ho
      · intro hx; exact absurd rfl hx
    · cases hs
  · cases hs

theorem evsOf_cons_none (src : Src) (q : List (Option Ev)) : evsOf src (none :: q) = evsOf src q := rfl

theorem inv_wGet (s s' : St) (h : Inv s) (hs : step s .wGet = some s') : Inv s' := by
  simp only [step] at hs
  by_cases hg : s.alive = true ∧ s.cur = none
  · rw [if_pos hg] at hs
    obtain ⟨halive, hcur⟩ := hg
    cases hq : s.queue with
    | nil => rw [hq] at hs; cases hs
    | cons x rest =>
      cases x with
      | some e =>
        rw [hq] at hs
        simp only [Option.some.injEq] at hs
        subst hs
        refine ⟨?_, fun _ => halive, ?_, h.flagStop, h.phaseFlag, ?_, ?_, h.lock, h.syncDead, h.returned⟩
        · intro src
          have hc := h.chain src
          simp only [begunOf, queueOf, pendingOf, triggered, hq, evsOf, List.filter_append] at hc ⊢
          by_cases he : e.1 == src
          · simp only [he, if_true, List.filter_cons, List.filter_nil] at hc ⊢
            rw [← hc]; simp [List.append_assoc]
          · have he' : (e.1 == src) = false := by simpa using he
            simp only [he', Bool.false_eq_true, if_false, List.filter_cons, List.filter_nil, List.append_nil] at hc ⊢
            exact hc
        · intro hd; simp [halive] at hd
        · intro hf ha
          have := h.marker hf ha
          rw [hq] at this
          simpa using this
        · intro hf
          have := h.noMarker hf
          rw [hq] at this
          intro hm; exact this (by simp [hm])
      | none =>
        have hflag : s.flag = false := by
          cases hf : s.flag with
          | false => rfl
          | true => exact absurd (by rw [hq]; simp) (h.noMarker hf)
        cases rest with
        | nil =>
          -- the stop marker, nothing behind it: the worker leaves run()
          rw [hq] at hs
          simp only [Option.some.injEq] at hs
          subst hs
          refine ⟨?_, ?_, ?_, h.flagStop, h.phaseFlag, ?_, ?_, h.lock, ?_, ?_⟩
          · intro src
            have hc := h.chain src
            simpa [begunOf, queueOf, pendingOf, triggered, hq, evsOf] using hc
          · intro hc; exact absurd hcur hc
          · intro _; exact ⟨rfl, hflag, hcur⟩
          · intro _ ha; cases ha
          · intro hf; rw [hflag] at hf; cases hf
          · intro _; rfl
          · intro _; rfl
        | cons y rest' =>
          -- the stop marker with callback-triggered events behind it: re-append
          rw [hq] at hs
          simp only [Option.some.injEq] at hs
          subst hs
          refine ⟨?_, h.curAlive, ?_, h.flagStop, h.phaseFlag, ?_, ?_, h.lock, h.syncDead, h.returned⟩
          · intro src
            have hc := h.chain src
            have e1 : evsOf src (y :: (rest' ++ [none])) = evsOf src (y :: rest') := by
              have := evsOf_append src (y :: rest') [none]
              simpa [evsOf] using this
            simp only [begunOf, queueOf, pendingOf, triggered, hq, evsOf_cons_none] at hc ⊢
            show _ ++ evsOf src (y :: (rest' ++ [none])) ++ _ = _
            rw [e1]; exact hc
          · intro hd; rw [halive] at hd; cases hd
          · intro _ _; simp
          · intro hf; rw [hflag] at hf; cases hf
  · rw [if_neg hg] at hs; cases hs

theorem inv_wCb (s s' : St) (h : Inv s) (hs : step s .wCb = some s') : Inv s' := by
  simp only [step] at hs
  split at hs
  · rename_i hg
    obtain ⟨halive, hcur, hlt, hown⟩ := hg
    simp only [Option.some.injEq] at hs
    subst hs
    refine ⟨?_, h.curAlive, ?_, h.flagStop, h.phaseFlag, ?_, ?_, h.lock, h.syncDead, h.returned⟩
    · intro src
      have hc := h.chain src
      cases src with
      | none =>
        simp only [begunOf, queueOf, pendingOf, triggered, evsOf_append, evsOf, beq_self_eq_true, if_true, List.append_nil] at hc ⊢
        rw [range_succ_map, ← hc]; simp [List.append_assoc]
      | some q =>
        have hne : ((none : Src) == some q) = false := by simp
        simpa [begunOf, queueOf, pendingOf, triggered, evsOf_append, evsOf, hne] using hc
    · intro hd; rw [halive] at hd; cases hd
    · intro hf ha
      have := h.marker hf ha
      simp [this]
    · intro hf
      have := h.noMarker hf
      simp [this]
  · cases hs

theorem inv_wEnd (s s' : St) (h : Inv s) (hs : step s .wEnd = some s') : Inv s' := by
  simp only [step] at hs
  split at hs
  · rename_i hg
    obtain ⟨halive, hcur⟩ := hg
    simp only [Option.some.injEq] at hs
    subst hs
    refine ⟨?_, ?_, ?_, h.flagStop, h.phaseFlag, h.marker, h.noMarker, h.lock, h.syncDead, h.returned⟩
    · intro src; exact h.chain src
    · intro hc; exact absurd rfl hc
    · intro hd; rw [halive] at hd; cases hd
  · cases hs

theorem inv_stopCall (s s' : St) (h : Inv s) (hs : step s .stopCall = some s') : Inv s' := by
  simp only [step] at hs
  split at hs
  · rename_i hg
    obtain ⟨hnc, hown⟩ := hg
    have hf : s.flag = true := h.flagStop.2 hnc
    rw [if_pos hf] at hs
    simp only [Option.some.injEq] at hs
    subst hs
    have halive : s.alive = true := by
      cases ha : s.alive with
      | true => rfl
      | false => have := (h.dead ha).2.1; rw [hf] at this; cases this
    refine ⟨?_, h.curAlive, ?_, ?_, ?_, ?_, ?_, h.lock, h.syncDead, ?_⟩
    · intro src
      have hc := h.chain src
      simpa [begunOf, queueOf, pendingOf, triggered, evsOf_append, evsOf] using hc
    · intro hd; rw [halive] at hd; cases hd
    · simp
    · intro _ _; rfl
    · intro _ _; simp
    · intro hff; cases hff
    · intro hr; cases hr
  · cases hs

theorem inv_stopJoin (s s' : St) (h : Inv s) (hs : step s .stopJoin = some s') : Inv s' := by
  simp only [step] at hs
  split at hs
  · rename_i hg
    obtain ⟨hj, hdead⟩ := hg
    simp only [Option.some.injEq] at hs
    subst hs
    have hflag := (h.dead hdead).2.1
    refine ⟨?_, h.curAlive, h.dead, ?_, h.phaseFlag, h.marker, h.noMarker, h.lock, h.syncDead, ?_⟩
    · intro src; exact h.chain src
    · simp [hflag]
    · intro _; exact hdead
  · cases hs

/-- every step preserves the invariant -/
theorem step_inv (s s' : St) (l : Label) (h : Inv s) (hs : step s l = some s') : Inv s' := by
  cases l with
  | trig p => exact inv_trig s s' p h hs
  | syncBegin p => exact inv_syncBegin s s' p h hs
  | syncEnd p => exact inv_syncEnd s s' p h hs
  | wGet => exact inv_wGet s s' h hs
  | wCb => exact inv_wCb s s' h hs
  | wEnd => exact inv_wEnd s s' h hs
  | stopCall => exact inv_stopCall s s' h hs
  | stopJoin => exact inv_stopJoin s s' h hs

theorem run_inv (s s' : St) (ls : List Label) (h : Inv s) (hr : run s ls = some s') : Inv s' := by
  induction ls generalizing s with
  | nil => simp [run] at hr; subst hr; exact h
  | cons l ls ih =>
    simp only [run] at hr
    cases hst : step s l with
    | none => rw [hst] at hr; cases hr
    | some s1 => rw [hst] at hr; exact ih s1 (step_inv s s1 l h hst) hr

/-- **the invariant holds in every reachable state** (every interleaving, any length) -/
theorem reachable_inv (totals : Nat → Nat) (cbTotal : Nat) (s : St) (h : Reachable totals cbTotal s) : Inv s := by
  obtain ⟨ls, hr⟩ := h
  exact run_inv _ s ls (init_inv totals cbTotal) hr

end PyQueue
end KojenVerif
