import KojenVerif.Basic.Str
/-
  Facts about the string primitives: the output stage's TAB filter is idempotent and
  neither creates nor destroys an occurrence of a pattern that is free of TAB and space.
-/
namespace KojenVerif
namespace Str

/-- the pattern contains neither TAB nor space -/
def noTabSp (p : Str) : Bool := p.all (fun c => c != TAB && c != SP)

theorem expandTabs_cons_ne {c : Nat} (h : c ≠ TAB) (cs : Str) :
    expandTabs (c :: cs) = c :: expandTabs cs := by simp [expandTabs, h]

theorem expandTabs_cons_tab (cs : Str) :
    expandTabs (TAB :: cs) = SP :: SP :: SP :: SP :: expandTabs cs := by simp [expandTabs]

theorem expandTabs_idem (s : Str) : expandTabs (expandTabs s) = expandTabs s := by
  induction s with
  | nil => rfl
  | cons c cs ih =>
    by_cases h : c = TAB
    · subst h
      simp [expandTabs, ih, TAB, SP]
    · have h' : (c == TAB) = false := by simp [h]
      simp [expandTabs, h', ih]

theorem isPrefixB_expandTabs (p : Str) (hp : noTabSp p = true) (s : Str) :
    isPrefixB p (expandTabs s) = isPrefixB p s := by
  induction p generalizing s with
  | nil => simp [isPrefixB]
  | cons a as ih =>
    simp only [noTabSp, List.all_cons, Bool.and_eq_true, bne_iff_ne, ne_eq] at hp
    obtain ⟨⟨ha1, ha2⟩, has⟩ := hp
    cases s with
    | nil => simp [expandTabs, isPrefixB]
    | cons c cs =>
      by_cases h : c = TAB
      · subst h
        have e1 : (a == SP) = false := by simp [ha2]
        have e2 : (a == TAB) = false := by simp [ha1]
        simp [expandTabs, isPrefixB, e1, e2]
      · rw [expandTabs_cons_ne h]
        simp only [isPrefixB]
        rw [ih (by simpa [noTabSp] using has)]

theorem contains_expandTabs (p : Str) (hne : p ≠ []) (hp : noTabSp p = true) (s : Str) :
    contains p (expandTabs s) = contains p s := by
  induction s with
  | nil => rfl
  | cons c cs ih =>
    obtain ⟨a, as, rfl⟩ : ∃ a as, p = a :: as := by
      cases p with
      | nil => exact absurd rfl hne
      | cons a as => exact ⟨a, as, rfl⟩
    have hp' := hp
    simp only [noTabSp, List.all_cons, Bool.and_eq_true, bne_iff_ne, ne_eq] at hp'
    obtain ⟨⟨ha1, ha2⟩, _⟩ := hp'
    by_cases h : c = TAB
    · subst h
      have e1 : (a == SP) = false := by simp [ha2]
      have e2 : (a == TAB) = false := by simp [ha1]
      simp [expandTabs, contains, isPrefixB, e1, e2, ih]
    · have hpre := isPrefixB_expandTabs (a :: as) hp (c :: cs)
      rw [expandTabs_cons_ne h] at hpre ⊢
      simp only [contains, ih, hpre]

end Str
end KojenVerif
