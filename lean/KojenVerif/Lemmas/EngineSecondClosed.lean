import KojenVerif.Lemmas.EngineSecond
/-
  Closed form of the second filtering: every block replaced by its expansion, everything else as it is.
-/
namespace KojenVerif
namespace Engine
open Str

/-- an item after the second filtering -/
def blockOut (m : Spec.Model) : Spec.Item → List Spec.Item
  | .block k _ body => (Spec.expandBlock m k body).map .b
  | .pst _ body => (Spec.expandPst m.table body).map .b
  | it => [it]

/-- an item after the passes `ps` -/
def expandIf (m : Spec.Model) (ps : List Pass) : Spec.Item → List Spec.Item
  | .block k ws body => if Pass.kind k ∈ ps then (Spec.expandBlock m k body).map .b else [.block k ws body]
  | .pst ws body => if Pass.pst ∈ ps then (Spec.expandPst m.table body).map .b else [.pst ws body]
  | it => [it]

theorem flatMap_b (f : Spec.Item → List Spec.Item) (hf : ∀ i, f (.b i) = [.b i]) (bs : List Spec.BItem) :
    (bs.map Spec.Item.b).flatMap f = bs.map .b := by
  induction bs with
  | nil => rfl
  | cons b bs ih => simp only [List.map_cons, List.flatMap_cons, hf, ih, List.singleton_append]

theorem runPasses_expandIf (m : Spec.Model) (ps : List Pass) (items : List Spec.Item) :
    runPasses m ps items = items.flatMap (expandIf m ps) := by
  induction ps generalizing items with
  | nil =>
    simp only [runPasses]
    induction items with
    | nil => rfl
    | cons it items ih =>
      rw [List.flatMap_cons, ← ih]
      cases it <;> simp [expandIf]
  | cons p ps ih =>
    simp only [runPasses]
    rw [ih, List.flatMap_assoc]
    congr 1
    funext it
    cases it with
    | b i => simp [passOut, expandIf]
    | cond ws brs els => simp [passOut, expandIf]
    | loop ws pr body => simp [passOut, expandIf]
    | block k ws body =>
      simp only [passOut]
      by_cases hp : p = .kind k
      · subst hp
        simp only [if_true, expandIf, List.mem_cons, true_or]
        exact flatMap_b _ (fun i => rfl) _
      · have : (Pass.kind k ∈ p :: ps) = (Pass.kind k ∈ ps) := by
          simp only [List.mem_cons, eq_iff_iff]
          constructor
          · rintro (e | h)
            · exact absurd e.symm hp
            · exact h
          · exact Or.inr
        simp only [hp, if_false, List.flatMap_cons, List.flatMap_nil, List.append_nil, expandIf, this]
    | pst ws body =>
      simp only [passOut]
      by_cases hp : p = .pst
      · subst hp
        simp only [if_true, expandIf, List.mem_cons, true_or]
        exact flatMap_b _ (fun i => rfl) _
      · have : (Pass.pst ∈ p :: ps) = (Pass.pst ∈ ps) := by
          simp only [List.mem_cons, eq_iff_iff]
          constructor
          · rintro (e | h)
            · exact absurd e.symm hp
            · exact h
          · exact Or.inr
        simp only [hp, if_false, List.flatMap_cons, List.flatMap_nil, List.append_nil, expandIf, this]

theorem expandIf_all (m : Spec.Model) (it : Spec.Item) : expandIf m passOrder it = blockOut m it := by
  cases it with
  | block k ws body =>
    have : Pass.kind k ∈ passOrder := by cases k <;> simp [passOrder]
    simp [expandIf, blockOut, this]
  | pst ws body =>
    have : Pass.pst ∈ passOrder := by simp [passOrder]
    simp [expandIf, blockOut, this]
  | b i => rfl
  | cond ws brs els => rfl
  | loop ws pr body => rfl

/-- **closed form**: the second filtering replaces the initial state's tag and every block, and touches nothing else -/
theorem secondOut_closed (m : Spec.Model) (items : List Spec.Item) :
    secondOut m items = (items.map (Spec.Item.subst (Spec.byDict (st0Keys m)))).flatMap (blockOut m) := by
  unfold secondOut
  rw [runPasses_expandIf]
  congr 1
  funext it
  exact expandIf_all m it

end Engine
end KojenVerif
