import KojenVerif.Model.Pipeline
import KojenVerif.Lemmas.Preserv
/-
  The multi-file preservation pass acts on every file independently (C04), and where the
  LostCode pseudo-files go (C03).
-/
namespace KojenVerif
open Str

namespace ODict
variable {V : Type}

theorem get?_set (d : ODict V) (k k' : Str) (v : V) :
    get? (set d k v) k' = if k = k' then some v else get? d k' := by
  induction d with
  | nil => simp [set, get?]
  | cons p d ih =>
    obtain ⟨k0, v0⟩ := p
    by_cases h0 : k0 = k
    · subst h0
      by_cases h1 : k0 = k' <;> simp [set, get?, h1]
    · by_cases h1 : k0 = k'
      · subst h1
        have : ¬ k = k0 := fun h => h0 h.symm
        simp [set, get?, h0, this]
      · simp [set, get?, h0, h1, ih]

theorem mem_keys_set (d : ODict V) (k k' : Str) (v : V) :
    k' ∈ keys (set d k v) ↔ k' = k ∨ k' ∈ keys d := by
  induction d with
  | nil => simp [set, keys]
  | cons p d ih =>
    obtain ⟨k0, v0⟩ := p
    by_cases h0 : k0 = k
    · subst h0; simp [set, keys]
    · simp only [keys] at ih
      simp only [set, h0, if_false, keys, List.map_cons, List.mem_cons, ih]
      constructor
      · rintro (h | h | h)
        · exact Or.inr (Or.inl h)
        · exact Or.inl h
        · exact Or.inr (Or.inr h)
      · rintro (h | h | h)
        · exact Or.inr (Or.inl h)
        · exact Or.inl h
        · exact Or.inr (Or.inr h)

theorem get?_eq_none_iff (d : ODict V) (k : Str) : get? d k = none ↔ k ∉ keys d := by
  induction d with
  | nil => simp [get?, keys]
  | cons p d ih =>
    obtain ⟨k0, v0⟩ := p
    by_cases h : k0 = k
    · subst h; simp [get?, keys]
    · have h' : ¬ k = k0 := fun e => h e.symm
      simp only [keys] at ih
      simp [get?, keys, h, h', ih]

end ODict

/-- lines of `fn` after `Preservative(path)` + `Emplace({fn: lines})` -/
def ownLines (w : World) (path fn : Str) (lines : List Str) : List Str :=
  match w.read path with
  | none => lines
  | some content =>
    if contains fn path then emplace strCfg (collect strCfg (splitLines content)) lines else lines

/-- lost (tag, body) entries of that step -/
def ownLost (w : World) (path fn : Str) (lines : List Str) : Tags Str Str :=
  match w.read path with
  | none => []
  | some content =>
    let tags := collect strCfg (splitLines content)
    lostEntries tags (if contains fn path then used strCfg tags lines else [])

/-- the key under which lost code of `path` is stored -/
def lostKey (w : World) (path : Str) : Str := Path.abspath w.cwd path ++ lostSuffix

theorem emplaceOwn_eq (w : World) (path fn : Str) (lines : List Str) :
    emplaceOwn w path fn lines =
      (fn, ownLines w path fn lines) ::
        (if (ownLost w path fn lines).isEmpty then []
         else [(lostKey w path, ((ownLost w path fn lines).map (fun kb => lostLines (Path.abspath w.cwd path) kb.1 kb.2)).flatten)]) := by
  unfold emplaceOwn ownLines ownLost lostKey
  cases h : w.read path with
  | none => simp
  | some content =>
    simp only
    split <;> (simp_all; split <;> rfl)

/-- one step of the pass for file name `fn` -/
def passStep (w : World) (outdir : Str) (acc : CodeModel) (fn : Str) : CodeModel :=
  match ODict.get? acc fn with
  | none => acc
  | some lines => ODict.update acc (emplaceOwn w (Path.join outdir fn) fn lines)

theorem preservePass_eq (w : World) (outdir : Str) (cm : CodeModel) :
    preservePass w outdir cm = (ODict.keys cm).foldl (passStep w outdir) cm := rfl

theorem passStep_get?_other (w : World) (outdir : Str) (acc : CodeModel) (fn k : Str)
    (h1 : k ≠ fn) (h2 : k ≠ lostKey w (Path.join outdir fn)) :
    ODict.get? (passStep w outdir acc fn) k = ODict.get? acc k := by
  unfold passStep
  cases hg : ODict.get? acc fn with
  | none => rfl
  | some lines =>
    simp only
    rw [emplaceOwn_eq]
    have h1' : ¬ fn = k := fun e => h1 e.symm
    have h2' : ¬ lostKey w (Path.join outdir fn) = k := fun e => h2 e.symm
    split <;> simp [ODict.update, ODict.get?_set, h1', h2']

theorem passStep_get?_self (w : World) (outdir : Str) (acc : CodeModel) (fn : Str) (lines : List Str)
    (hg : ODict.get? acc fn = some lines) (h2 : fn ≠ lostKey w (Path.join outdir fn)) :
    ODict.get? (passStep w outdir acc fn) fn = some (ownLines w (Path.join outdir fn) fn lines) := by
  unfold passStep
  simp only [hg]
  rw [emplaceOwn_eq]
  have h2' : ¬ lostKey w (Path.join outdir fn) = fn := fun e => h2 e.symm
  split <;> simp [ODict.update, ODict.get?_set, h2']

theorem passStep_keys_mono (w : World) (outdir : Str) (acc : CodeModel) (fn k : Str)
    (hk : k ∈ ODict.keys acc) : k ∈ ODict.keys (passStep w outdir acc fn) := by
  unfold passStep
  cases hg : ODict.get? acc fn with
  | none => exact hk
  | some lines =>
    simp only
    rw [emplaceOwn_eq]
    split <;> simp [ODict.update, ODict.mem_keys_set, hk]

theorem passStep_lost_key (w : World) (outdir : Str) (acc : CodeModel) (fn : Str) (lines : List Str)
    (hg : ODict.get? acc fn = some lines)
    (hl : (ownLost w (Path.join outdir fn) fn lines).isEmpty = false) :
    lostKey w (Path.join outdir fn) ∈ ODict.keys (passStep w outdir acc fn) := by
  unfold passStep
  simp only [hg]
  rw [emplaceOwn_eq]
  simp [hl, ODict.update, ODict.mem_keys_set]

/-- fresh file names and LostCode names never coincide -/
def NoClash (w : World) (outdir : Str) (names : List Str) : Prop :=
  ∀ a ∈ names, ∀ b ∈ names, a ≠ lostKey w (Path.join outdir b)

theorem foldl_passStep_keys_mono (w : World) (outdir : Str) (todo : List Str) (acc : CodeModel) (k : Str)
    (hk : k ∈ ODict.keys acc) : k ∈ ODict.keys (todo.foldl (passStep w outdir) acc) := by
  induction todo generalizing acc with
  | nil => exact hk
  | cons fn todo ih => exact ih _ (passStep_keys_mono w outdir acc fn k hk)

/-- folding the pass over `todo`: a name not in `todo` (and no LostCode name of it) keeps its entry -/
theorem foldl_passStep_get?_untouched (w : World) (outdir : Str) (todo : List Str) (acc : CodeModel) (k : Str)
    (h1 : k ∉ todo) (h2 : ∀ fn ∈ todo, k ≠ lostKey w (Path.join outdir fn)) :
    ODict.get? (todo.foldl (passStep w outdir) acc) k = ODict.get? acc k := by
  induction todo generalizing acc with
  | nil => rfl
  | cons fn todo ih =>
    simp only [List.foldl_cons]
    rw [ih (passStep w outdir acc fn) (fun h => h1 (by simp [h])) (fun f hf => h2 f (by simp [hf]))]
    exact passStep_get?_other w outdir acc fn k (fun e => h1 (by simp [e])) (h2 fn (by simp))

/-- **Isolation.** After the whole pass the entry of every file is `ownLines` of its own
    old file and its own fresh lines: no other file's content enters. -/
theorem preservePass_get? (w : World) (outdir : Str) (cm : CodeModel)
    (hnd : (ODict.keys cm).Nodup) (hnc : NoClash w outdir (ODict.keys cm))
    (fn : Str) (lines : List Str) (hfn : ODict.get? cm fn = some lines) :
    ODict.get? (preservePass w outdir cm) fn = some (ownLines w (Path.join outdir fn) fn lines) := by
  have hmem : fn ∈ ODict.keys cm := by
    apply Classical.byContradiction
    intro hc
    rw [(ODict.get?_eq_none_iff cm fn).2 hc] at hfn
    cases hfn
  rw [preservePass_eq]
  -- generalise: process a nodup list `todo ⊆ keys cm` containing fn, from any acc that still has cm's entry for fn
  suffices H : ∀ (todo : List Str) (acc : CodeModel), todo.Nodup → (∀ k ∈ todo, k ∈ ODict.keys cm) → fn ∈ todo →
      ODict.get? acc fn = some lines →
      ODict.get? (todo.foldl (passStep w outdir) acc) fn = some (ownLines w (Path.join outdir fn) fn lines) from
    H (ODict.keys cm) cm hnd (fun k hk => hk) hmem hfn
  intro todo
  induction todo with
  | nil => intro acc _ _ h; cases h
  | cons g todo ih =>
    intro acc hnd' hsub hin hacc
    simp only [List.nodup_cons] at hnd'
    simp only [List.foldl_cons]
    by_cases hg : g = fn
    · subst hg
      rw [foldl_passStep_get?_untouched w outdir todo _ g hnd'.1
        (fun f hf => hnc g (hsub g (by simp)) f (hsub f (by simp [hf])))]
      exact passStep_get?_self w outdir acc g lines hacc (hnc g (hsub g (by simp)) g (hsub g (by simp)))
    · have hin' : fn ∈ todo := by
        simp only [List.mem_cons] at hin
        rcases hin with h | h
        · exact absurd h.symm hg
        · exact h
      apply ih _ hnd'.2 (fun k hk => hsub k (by simp [hk])) hin'
      rw [passStep_get?_other w outdir acc g fn (fun e => hg e.symm)
        (hnc fn (hsub fn (by simp [hin'])) g (hsub g (by simp)))]
      exact hacc

/-- the LostCode name of a file whose step loses something is among the reported names -/
theorem preservePass_lost_listed (w : World) (outdir : Str) (cm : CodeModel)
    (hnd : (ODict.keys cm).Nodup) (hnc : NoClash w outdir (ODict.keys cm))
    (fn : Str) (lines : List Str) (hfn : ODict.get? cm fn = some lines)
    (hl : (ownLost w (Path.join outdir fn) fn lines).isEmpty = false) :
    lostKey w (Path.join outdir fn) ∈ ODict.keys (preservePass w outdir cm) := by
  have hmem : fn ∈ ODict.keys cm := by
    apply Classical.byContradiction
    intro hc
    rw [(ODict.get?_eq_none_iff cm fn).2 hc] at hfn
    cases hfn
  rw [preservePass_eq]
  suffices H : ∀ (todo : List Str) (acc : CodeModel), todo.Nodup → (∀ k ∈ todo, k ∈ ODict.keys cm) → fn ∈ todo →
      ODict.get? acc fn = some lines →
      lostKey w (Path.join outdir fn) ∈ ODict.keys (todo.foldl (passStep w outdir) acc) from
    H (ODict.keys cm) cm hnd (fun k hk => hk) hmem hfn
  intro todo
  induction todo with
  | nil => intro acc _ _ h; cases h
  | cons g todo ih =>
    intro acc hnd' hsub hin hacc
    simp only [List.nodup_cons] at hnd'
    simp only [List.foldl_cons]
    by_cases hg : g = fn
    · subst hg
      exact foldl_passStep_keys_mono w outdir todo _ _ (passStep_lost_key w outdir acc g lines hacc hl)
    · have hin' : fn ∈ todo := by
        simp only [List.mem_cons] at hin
        rcases hin with h | h
        · exact absurd h.symm hg
        · exact h
      apply ih _ hnd'.2 (fun k hk => hsub k (by simp [hk])) hin'
      rw [passStep_get?_other w outdir acc g fn (fun e => hg e.symm)
        (hnc fn (hsub fn (by simp [hin'])) g (hsub g (by simp)))]
      exact hacc

end KojenVerif
