import KojenVerif.Lemmas.EngineInner
/-
  `innerexpand_secondfiltering` for struct / protocol-message / message blocks (`proto = true`):
  body lines that carry name / counter tags only.
-/
namespace KojenVerif
namespace Engine
open Str

/-- the keys of `protoNameChain` without brackets -/
def protoKeys (name : Str) (alpha cnt : Nat) : List (Str × Str) :=
  [ (T "structName", camelSmall name), (T "STRUCTNAME", name),
    (T "msgName", camelSmall name), (T "MSGNAME", name),
    (T "PROTOMSGNAME", name), (T "protoMsgName", camelSmall name),
    (T "ALPH", [alpha]), (T "NUM", natToStr cnt) ]

theorem protoNameChain_eq (name : Str) (alpha cnt : Nat) : protoNameChain name alpha cnt = toPat (protoKeys name alpha cnt) := rfl

/-- the dictionary of one element of a struct / message block -/
def protoDict (name : Str) (idx : Nat) : List (Str × Str) := Spec.protoNameTags name ++ Spec.counterTags idx

theorem lookupS_cons (k v : Str) (r : List (Str × Str)) (n : Str) :
    Spec.lookupS ((k, v) :: r) n = if k = n then some v else Spec.lookupS r n := by
  simp only [Spec.lookupS, List.find?_cons]
  by_cases h : k = n
  · have : (k == n) = true := by simpa using h
    simp [h]
  · have : (k == n) = false := by simpa using h
    simp [this, h]

/-- the engine's chain and the specification's dictionary answer every name alike (the keys
    are distinct; the two lists order them differently) -/
theorem lookup_protoKeys (name : Str) (idx : Nat) (n : Str) :
    Spec.lookupS (protoKeys name (alphaOf idx) idx) n = Spec.lookupS (protoDict name idx) n := by
  have d1 : T "structName" ≠ T "STRUCTNAME" := by decide
  have d2 : T "msgName" ≠ T "MSGNAME" := by decide
  have d3 : T "structName" ≠ T "msgName" := by decide
  have d4 : T "structName" ≠ T "MSGNAME" := by decide
  have d5 : T "STRUCTNAME" ≠ T "msgName" := by decide
  have d6 : T "STRUCTNAME" ≠ T "MSGNAME" := by decide
  simp only [protoKeys, protoDict, Spec.protoNameTags, Spec.counterTags, List.cons_append, List.nil_append, lookupS_cons]
  by_cases h1 : T "structName" = n
  · subst h1; simp [d1.symm, d1]
  · by_cases h2 : T "STRUCTNAME" = n
    · subst h2; simp [d1]
    · by_cases h3 : T "msgName" = n
      · subst h3; simp [d3, d5, d2.symm, d2]
      · by_cases h4 : T "MSGNAME" = n
        · subst h4; simp [d4, d6, d2]
        · simp [h1, h2, h3, h4]

theorem byDict_protoKeys (name : Str) (idx : Nat) (l : Spec.SLine) :
    Spec.substLine (Spec.byDict (protoKeys name (alphaOf idx) idx)) l = Spec.substLine (Spec.byDict (protoDict name idx)) l := by
  apply substLine_congr
  intro n d
  cases d with
  | none =>
    show Spec.lookupS (protoKeys name (alphaOf idx) idx) n = Spec.lookupS (protoDict name idx) n
    exact lookup_protoKeys name idx n
  | some d => simp only [Spec.byDict]

/-- no signature / member / documentation / initialisation / message-id / attribute / payload tag -/
structure RichFreeP (nl : Str) : Prop where
  sig : hasSpecificTag nl (T "<<<SIGNATURE>>>") = false
  mi : hasSpecificTag nl (T "<<<MEMBERSINSTANTIATE>>>") = false
  mi' : contains (T "<<<MEMBERSINSTANTIATE>>>") nl = false
  ml : hasSpecificTag nl (T "<<<MEMBERSLITEINSTANTIATE>>>") = false
  ml' : contains (T "<<<MEMBERSLITEINSTANTIATE>>>") nl = false
  md' : contains (T "<<<MEMBERSDECLARE>>>") nl = false
  doc : hasSpecificTag nl (T "<<<DOCUMENTATION>>>") = false
  agg : hasSpecificTag nl (T "<<<AGGREGATEINITIALIZATION>>>") = false
  msgid : hasSpecificTag nl (T "<<<MSGID>>>") = false
  attrT : hasSpecificTag nl (T "<<<ATTRIBUTETYPE>>>") = false
  attrN : hasSpecificTag nl (T "<<<ATTRIBUTENAME>>>") = false
  payT : hasSpecificTag nl (T "<<<PAYLOADTYPE>>>") = false
  payN : hasSpecificTag nl (T "<<<PAYLOADNAME>>>") = false
  pyAttr : hasSpecificTag nl (T "<<<PyAttr>>>") = false

theorem innerLine_plain_proto (env : Env) (ht : EnvTotal env) (name : Str) (alpha cnt : Nat) (line : Line)
    (h : hasTag line = true) (hr : RichFreeP (applySubst (protoNameChain name alpha cnt) line)) :
    innerLine env true name alpha cnt line =
      some (if isSpace (applySubst (protoNameChain name alpha cnt) line) then [] else [applySubst (protoNameChain name alpha cnt) line]) := by
  unfold innerLine
  simp only [h, Bool.not_true, Bool.false_eq_true, if_false, if_true]
  generalize hnl : applySubst (protoNameChain name alpha cnt) line = nl at hr
  have hsig : doSignature env name nl = some nl := by simp [doSignature, hr.sig]
  obtain ⟨v1, hv1⟩ := ht.mi name (count (T "    ") nl) true (T "data")
  obtain ⟨v2, hv2⟩ := ht.mi name (count (T "    ") nl) false (T "data")
  obtain ⟨v3, hv3⟩ := ht.md name (count (T "    ") nl) true
  have hm1 : doMemberInst env name (count (T "    ") nl) (T "<<<MEMBERSINSTANTIATE>>>") true nl = some nl := by
    simp only [doMemberInst, hr.mi, Bool.false_and, Bool.false_eq_true, if_false, hv1, Option.map_some]
    rw [pyReplace_of_not_contains _ _ _ (by decide) hr.mi']
  have hm2 : doMemberInst env name (count (T "    ") nl) (T "<<<MEMBERSLITEINSTANTIATE>>>") false nl = some nl := by
    simp only [doMemberInst, hr.ml, Bool.false_and, Bool.false_eq_true, if_false, hv2, Option.map_some]
    rw [pyReplace_of_not_contains _ _ _ (by decide) hr.ml']
  simp only [hsig, Option.bind_some, hm1, hm2, hr.doc, Bool.false_eq_true, if_false, hr.agg, hr.msgid, Bool.and_false,
    Bool.true_and, hv3, Option.map_some]
  rw [pyReplace_of_not_contains _ _ _ (by decide) hr.md']
  simp only [Option.bind_some, hr.attrT, hr.attrN, Bool.or_self, Bool.false_eq_true, if_false, hr.payT, hr.payN,
    Bool.and_false, hr.pyAttr, Bool.false_and]
  by_cases hs : isSpace nl = true <;> simp [hs]

structure BodyLineOKP (name : Str) (idx : Nat) (i : Spec.BItem) : Prop where
  ok : match i with
    | .line l => LineOK l
    | .blank t => Clean t ∧ isSpace (t ++ [NL]) = true
  chain : ChainOK (protoKeys name (alphaOf idx) idx)
  rich : match i with
    | .line l => RichFreeP (Spec.renderLine (Spec.substLine (Spec.byDict (protoDict name idx)) l))
    | .blank _ => True

theorem substLine_noTag (f : Str → Option Str → Option Str) (l : Spec.SLine) (hk : LineOK l)
    (hT : hasTag (Spec.renderLine l) = false) : Spec.substLine f l = l := by
  unfold hasTag at hT
  rw [tagBodies_renderLine l hk] at hT
  have hnone : ∀ s ∈ l, segBody s = none := by
    intro s hs
    cases hb : segBody s with
    | none => rfl
    | some b =>
      have : (l.filterMap segBody) ≠ [] := by
        intro e
        have : b ∈ l.filterMap segBody := List.mem_filterMap.2 ⟨s, hs, hb⟩
        rw [e] at this; cases this
      simp [this] at hT
  unfold Spec.substLine
  conv => rhs; rw [← List.map_id l]
  apply List.map_congr_left
  intro s hs
  have := hnone s hs
  cases s with
  | lit t => rfl
  | tag n d => cases d <;> simp [segBody] at this

theorem innerLine_bitem_proto (env : Env) (ht : EnvTotal env) (name : Str) (idx : Nat) (i : Spec.BItem)
    (h : BodyLineOKP name idx i) :
    innerLine env true name (alphaOf idx) idx i.render =
      some ((Spec.bodyFor (protoDict name idx) [i]).map Spec.bitemText) := by
  cases i with
  | blank t =>
    have hk := h.ok
    simp only at hk
    have hnt : hasTag (t ++ [NL]) = false := by
      unfold hasTag tagBodies
      have := tagBodiesAux_clean (t ++ [NL]) [] (hk.1.append clean_nl)
      simp only [List.append_nil] at this
      rw [this]; rfl
    simp only [Spec.BItem.render]
    rw [innerLine_noTag env true name _ idx _ hnt, hk.2]
    simp [Spec.bodyFor]
  | line l =>
    have hk : LineOK l := h.ok
    have hsub := applySubst_renderLine (protoKeys name (alphaOf idx) idx) h.chain l hk
    rw [← protoNameChain_eq, substChain_eq, byDict_protoKeys] at hsub
    simp only [Spec.BItem.render]
    by_cases hT : hasTag (Spec.renderLine l) = true
    · have hr : RichFreeP (applySubst (protoNameChain name (alphaOf idx) idx) (Spec.renderLine l)) := by
        rw [hsub.1]; exact h.rich
      rw [innerLine_plain_proto env ht name _ idx _ hT hr, hsub.1]
      simp only [Spec.bodyFor, List.filterMap_cons, List.filterMap_nil, Spec.lineText]
      by_cases hs : isSpace (Spec.renderLine (Spec.substLine (Spec.byDict (protoDict name idx)) l)) = true
      · simp [hs]
      · simp [hs, Spec.bitemText, Spec.lineText]
    · have hT' : hasTag (Spec.renderLine l) = false := by simpa using hT
      rw [innerLine_noTag env true name _ idx _ hT']
      have hid := substLine_noTag (Spec.byDict (protoDict name idx)) l hk hT'
      simp only [Spec.bodyFor, List.filterMap_cons, List.filterMap_nil, Spec.lineText, hid]
      by_cases hs : isSpace (Spec.renderLine l) = true
      · simp [hs]
      · simp [hs, Spec.bitemText, Spec.lineText]

theorem innerElem_body_proto (env : Env) (ht : EnvTotal env) (name : Str) (idx : Nat) (body : List Spec.BItem)
    (h : ∀ i ∈ body, BodyLineOKP name idx i) :
    innerElem env true (body.map Spec.BItem.render) name idx =
      some ((Spec.bodyFor (protoDict name idx) body).map Spec.bitemText) := by
  unfold innerElem
  induction body with
  | nil => simp [concatOpt, Spec.bodyFor]
  | cons i body ih =>
    have hi := h i (by simp)
    have hb : ∀ j ∈ body, BodyLineOKP name idx j := fun j hj => h j (by simp [hj])
    simp only [List.map_cons, List.map_map]
    rw [innerLine_bitem_proto env ht name idx i hi, concatOpt_some_cons]
    have := ih hb
    simp only [List.map_map] at this
    rw [this, bodyFor_cons (protoDict name idx) i body]
    simp

/-- **a per-struct / per-protocol-message / per-message block**: once per element, in the order of
    the interface's list, the element's name in every name tag (in the tag's case variant), its
    zero-based index in `NUM` and its letter in `ALPH`; white-space-only lines dropped -/
theorem innerExpand_proto (env : Env) (ht : EnvTotal env) (items : List Str) (body : List Spec.BItem)
    (h : ∀ p ∈ enumFrom 0 items, ∀ i ∈ body, BodyLineOKP p.2 p.1 i) :
    innerExpand env true items (body.map Spec.BItem.render) [] =
      some ((((enumFrom 0 items).map (fun p => Spec.bodyFor (protoDict p.2 p.1) body)).flatten).map Spec.bitemText) := by
  unfold innerExpand
  simp only [List.isEmpty_nil, Bool.not_true, Bool.false_eq_true, if_false]
  generalize enumFrom 0 items = ps at h
  induction ps with
  | nil => simp [concatOpt]
  | cons p ps ih =>
    have hp := h p (by simp)
    have hps : ∀ q ∈ ps, ∀ i ∈ body, BodyLineOKP q.2 q.1 i := fun q hq => h q (by simp [hq])
    simp only [List.map_cons]
    rw [innerElem_body_proto env ht p.2 p.1 body hp, concatOpt_some_cons, ih hps]
    simp

/-! executable hypotheses -/

def richFreePB (nl : Str) : Bool :=
  !hasSpecificTag nl (T "<<<SIGNATURE>>>") && !hasSpecificTag nl (T "<<<MEMBERSINSTANTIATE>>>") &&
  !contains (T "<<<MEMBERSINSTANTIATE>>>") nl && !hasSpecificTag nl (T "<<<MEMBERSLITEINSTANTIATE>>>") &&
  !contains (T "<<<MEMBERSLITEINSTANTIATE>>>") nl && !contains (T "<<<MEMBERSDECLARE>>>") nl &&
  !hasSpecificTag nl (T "<<<DOCUMENTATION>>>") && !hasSpecificTag nl (T "<<<AGGREGATEINITIALIZATION>>>") &&
  !hasSpecificTag nl (T "<<<MSGID>>>") &&
  !hasSpecificTag nl (T "<<<ATTRIBUTETYPE>>>") && !hasSpecificTag nl (T "<<<ATTRIBUTENAME>>>") &&
  !hasSpecificTag nl (T "<<<PAYLOADTYPE>>>") && !hasSpecificTag nl (T "<<<PAYLOADNAME>>>") &&
  !hasSpecificTag nl (T "<<<PyAttr>>>")

theorem richFreePB_sound (nl : Str) (h : richFreePB nl = true) : RichFreeP nl := by
  unfold richFreePB at h
  simp only [Bool.and_eq_true, Bool.not_eq_true'] at h
  obtain ⟨⟨⟨⟨⟨⟨⟨⟨⟨⟨⟨⟨⟨a, b⟩, c⟩, d⟩, e⟩, f⟩, g⟩, i⟩, j⟩, k⟩, l⟩, m⟩, n⟩, o⟩ := h
  exact ⟨a, b, c, d, e, f, g, i, j, k, l, m, n, o⟩

def chainOKPB (chain : List (Str × Str)) : Bool :=
  chain.all (fun kv => decide (Clean kv.1) && decide (NoEq kv.1) && decide (Clean kv.2))

theorem chainOKPB_sound (chain : List (Str × Str)) (h : chainOKPB chain = true) : ChainOK chain := by
  unfold chainOKPB at h
  simp only [List.all_eq_true, Bool.and_eq_true, decide_eq_true_eq] at h
  exact ⟨fun kv hkv => ⟨(h kv hkv).1.1, (h kv hkv).1.2⟩, fun kv hkv => (h kv hkv).2⟩

def bodyLineOKPB (name : Str) (idx : Nat) (i : Spec.BItem) : Bool :=
  (match i with
   | .line l => decide (LineOK l) && richFreePB (Spec.renderLine (Spec.substLine (Spec.byDict (protoDict name idx)) l))
   | .blank t => decide (Clean t) && isSpace (t ++ [NL])) &&
  chainOKPB (protoKeys name (alphaOf idx) idx)

theorem bodyLineOKPB_sound (name : Str) (idx : Nat) (i : Spec.BItem) (h : bodyLineOKPB name idx i = true) :
    BodyLineOKP name idx i := by
  unfold bodyLineOKPB at h
  simp only [Bool.and_eq_true] at h
  obtain ⟨h1, h2⟩ := h
  cases i with
  | line l =>
    simp only [Bool.and_eq_true, decide_eq_true_eq] at h1
    exact ⟨h1.1, chainOKPB_sound _ h2, richFreePB_sound _ h1.2⟩
  | blank t =>
    simp only [Bool.and_eq_true, decide_eq_true_eq] at h1
    exact ⟨h1, chainOKPB_sound _ h2, trivial⟩

/-- a struct / message block is inside the theorem's domain for `items` -/
def blockOKPB (items : List Str) (body : List Spec.BItem) : Bool :=
  (enumFrom 0 items).all (fun p => body.all (bodyLineOKPB p.2 p.1))

theorem blockOKPB_sound (items : List Str) (body : List Spec.BItem) (h : blockOKPB items body = true) :
    ∀ p ∈ enumFrom 0 items, ∀ i ∈ body, BodyLineOKP p.2 p.1 i := by
  unfold blockOKPB at h
  simp only [List.all_eq_true] at h
  exact fun p hp i hi => bodyLineOKPB_sound p.2 p.1 i (h p hp i hi)

end Engine
end KojenVerif
