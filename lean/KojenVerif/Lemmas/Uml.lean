import KojenVerif.Model.Uml
/-
  File naming and placement of UML elements: `str.replace` / `str.split` over names without
  dots and namespaces built from components without colons.
-/
namespace KojenVerif
namespace Uml
open Str

/-- the string does not contain the character -/
def NoChar (c : Nat) (s : Str) : Prop := ∀ x ∈ s, x ≠ c

instance (c : Nat) (s : Str) : Decidable (NoChar c s) := by unfold NoChar; exact inferInstance

theorem isPrefixB_head_ne (p : Nat) (ps : Str) (c : Nat) (r : Str) (h : c ≠ p) : isPrefixB (p :: ps) (c :: r) = false := by
  simp [isPrefixB]; intro e; exact absurd e.symm h

/-- `replace` passes over text that lacks the pattern's first character -/
theorem replaceAux_nochar (p : Nat) (ps rep s rest : Str) (h : NoChar p s) :
    replaceAux (p :: ps) rep 0 (s ++ rest) = s ++ replaceAux (p :: ps) rep 0 rest := by
  induction s with
  | nil => rfl
  | cons c s ih =>
    have hc : c ≠ p := h c (by simp)
    have hs : NoChar p s := fun x hx => h x (by simp [hx])
    simp only [List.cons_append, replaceAux, isPrefixB_head_ne p ps c _ hc, Bool.false_eq_true, if_false]
    rw [ih hs]

theorem pyReplace_nochar (p : Nat) (ps rep s rest : Str) (h : NoChar p s) :
    pyReplace (p :: ps) rep (s ++ rest) = s ++ pyReplace (p :: ps) rep rest := by
  unfold pyReplace
  simp only [List.isEmpty_cons, Bool.false_eq_true, if_false]
  exact replaceAux_nochar p ps rep s rest h

/-! ### file names -/

theorem tail_h (name : Str) (h : NoChar 46 name) :
    applySubst [(S ".ty", S ".py"), (S ".t", S ".h"), (S ".hpp", S ".cpp")] (name ++ S ".t") = name ++ S ".h" := by
  have a : S ".ty" = 46 :: [116, 121] := by decide
  have b : S ".t" = 46 :: [116] := by decide
  have c : S ".hpp" = 46 :: [104, 112, 112] := by decide
  simp only [applySubst, List.foldl_cons, List.foldl_nil]
  rw [a, pyReplace_nochar 46 _ _ name _ h, b, pyReplace_nochar 46 _ _ name _ h, c, pyReplace_nochar 46 _ _ name _ h]
  congr 1

theorem tail_cpp (name : Str) (h : NoChar 46 name) :
    applySubst [(S ".ty", S ".py"), (S ".t", S ".h"), (S ".hpp", S ".cpp")] (name ++ S ".tpp") = name ++ S ".cpp" := by
  have a : S ".ty" = 46 :: [116, 121] := by decide
  have b : S ".t" = 46 :: [116] := by decide
  have c : S ".hpp" = 46 :: [104, 112, 112] := by decide
  simp only [applySubst, List.foldl_cons, List.foldl_nil]
  rw [a, pyReplace_nochar 46 _ _ name _ h, b]
  have e1 : pyReplace (46 :: [116, 121]) (S ".py") (S ".tpp") = S ".tpp" := by decide
  rw [e1, pyReplace_nochar 46 _ _ name _ h]
  have e2 : pyReplace (46 :: [116]) (S ".h") (S ".tpp") = S ".hpp" := by decide
  rw [e2, c, pyReplace_nochar 46 _ _ name _ h]
  congr 1

/-- replacing the key at the start of a template's file name -/
theorem key_at_start (key name ext : Str) (hk : key ≠ []) :
    pyReplace key name (key ++ ext) = name ++ pyReplace key name ext := by
  unfold pyReplace
  have : key.isEmpty = false := by cases key <;> simp_all
  simp only [this, Bool.false_eq_true, if_false]
  cases key with
  | nil => exact absurd rfl hk
  | cons k ks =>
    have hp : isPrefixB (k :: ks) ((k :: ks) ++ ext) = true := by
      have : ∀ (a b : Str), isPrefixB a (a ++ b) = true := by
        intro a b; induction a with
        | nil => rfl
        | cons x a ih => simp [isPrefixB, ih]
      exact this _ _
    simp only [List.cons_append] at hp ⊢
    rw [replaceAux]
    simp only [hp, if_true]
    have hl : (k :: ks).length - 1 = ks.length := by simp
    rw [hl]
    have : ∀ (t r : Str), replaceAux (k :: ks) name t.length (t ++ r) = replaceAux (k :: ks) name 0 r := by
      intro t r; induction t with
      | nil => rfl
      | cons c t ih => simp only [List.length_cons, List.cons_append, replaceAux]; exact ih
    rw [this]

/-- **file names of a class**: `ClassTemplate.t` ↦ `Name.h`, `ClassTemplate.tpp` ↦ `Name.cpp` -/
theorem outName_class (name : Str) (h : NoChar 46 name) :
    outName (S "ClassTemplate") name (S "ClassTemplate.t") = name ++ S ".h" ∧
    outName (S "ClassTemplate") name (S "ClassTemplate.tpp") = name ++ S ".cpp" := by
  have e1 : S "ClassTemplate.t" = S "ClassTemplate" ++ S ".t" := by decide
  have e2 : S "ClassTemplate.tpp" = S "ClassTemplate" ++ S ".tpp" := by decide
  have k1 : pyReplace (S "ClassTemplate") name (S ".t") = S ".t" := by
    have : S "ClassTemplate" = 67 :: (S "lassTemplate") := by decide
    rw [this]
    have := pyReplace_nochar 67 (S "lassTemplate") name (S ".t") [] (by decide)
    simpa [pyReplace, replaceAux] using this
  have k2 : pyReplace (S "ClassTemplate") name (S ".tpp") = S ".tpp" := by
    have : S "ClassTemplate" = 67 :: (S "lassTemplate") := by decide
    rw [this]
    have := pyReplace_nochar 67 (S "lassTemplate") name (S ".tpp") [] (by decide)
    simpa [pyReplace, replaceAux] using this
  constructor
  · unfold outName
    simp only [applySubst, List.foldl_cons]
    rw [e1, key_at_start _ _ _ (by decide), k1]
    exact tail_h name h
  · unfold outName
    simp only [applySubst, List.foldl_cons]
    rw [e2, key_at_start _ _ _ (by decide), k2]
    exact tail_cpp name h

/-! ### namespaces -/

def COLON : Nat := 58

/-- `"A::B::C"` from its components -/
def joinNs : List Str → Str
  | [] => []
  | [c] => c
  | c :: cs => c ++ S "::" ++ joinNs cs

def joinPath : List Str → Str
  | [] => []
  | [c] => c
  | c :: cs => c ++ [47] ++ joinPath cs

theorem S_cc : S "::" = 58 :: [58] := by decide

/-- **folder chain**: `ns.replace("::", "/")` of a namespace is its components joined by `/` -/
theorem folder_chain (comps : List Str) (h : ∀ c ∈ comps, NoChar 58 c) :
    pyReplace (S "::") (S "/") (joinNs comps) = joinPath comps := by
  induction comps with
  | nil => decide
  | cons c cs ih =>
    have hc := h c (by simp)
    have hcs : ∀ x ∈ cs, NoChar 58 x := fun x hx => h x (by simp [hx])
    cases cs with
    | nil =>
      simp only [joinNs, joinPath]
      rw [S_cc]
      have := pyReplace_nochar 58 [58] (S "/") c [] hc
      simpa [pyReplace, replaceAux] using this
    | cons d ds =>
      simp only [joinNs, joinPath]
      rw [S_cc, List.append_assoc, pyReplace_nochar 58 [58] (S "/") c _ hc]
      have step : pyReplace (58 :: [58]) (S "/") (58 :: [58] ++ joinNs (d :: ds)) = S "/" ++ pyReplace (58 :: [58]) (S "/") (joinNs (d :: ds)) := by
        simp [pyReplace, replaceAux, isPrefixB]
      rw [step]
      rw [S_cc] at ih
      rw [ih hcs]
      simp [S]
      rfl

/-- a path under the folder chain determines the components' path and the file name, when the file
    name has no '/' -/
theorem placed_folders (ns fname : Str) (hne : pyReplace (S "::") (S "/") ns ≠ [])
    (hl : (pyReplace (S "::") (S "/") ns).getLast? ≠ some 47) :
    placed true ns fname = pyReplace (S "::") (S "/") ns ++ [47] ++ fname := by
  unfold placed
  have : (pyReplace (S "::") (S "/") ns).isEmpty = false := by
    cases h : pyReplace (S "::") (S "/") ns with
    | nil => exact absurd h hne
    | cons a b => rfl
  simp only [Bool.true_and, this, Bool.not_false, if_true]
  have : ((pyReplace (S "::") (S "/") ns).getLast? == some 47) = false := by
    cases h : (pyReplace (S "::") (S "/") ns).getLast? with
    | none => rfl
    | some x =>
      have : x ≠ 47 := by intro e; subst e; exact hl h
      simp [this]
  simp [this]

theorem placed_flat (ns fname : Str) : placed false ns fname = fname := by simp [placed]

/-- without a package the element stays at the top of the output directory -/
theorem placed_no_package (fname : Str) (b : Bool) : placed b [] fname = fname := by
  have e : pyReplace (S "::") (S "/") [] = [] := by decide
  cases b <;> simp [placed, e]

end Uml
end KojenVerif

namespace KojenVerif
namespace Uml
open Str

theorem splitAllAux_nochar (p : Nat) (ps s rest cur : Str) (h : NoChar p s) :
    splitAllAux (p :: ps) 0 (s ++ rest) cur = splitAllAux (p :: ps) 0 rest (s.reverse ++ cur) := by
  induction s generalizing cur with
  | nil => rfl
  | cons c s ih =>
    have hc : c ≠ p := h c (by simp)
    have hs : NoChar p s := fun x hx => h x (by simp [hx])
    simp only [List.cons_append, splitAllAux, isPrefixB_head_ne p ps c _ hc, Bool.false_eq_true, if_false]
    rw [ih _ hs]
    simp

theorem splitAllAux_sep (rest cur : Str) :
    splitAllAux (58 :: [58]) 0 (58 :: 58 :: rest) cur = cur.reverse :: splitAllAux (58 :: [58]) 0 rest [] := by
  simp [splitAllAux, isPrefixB]

/-- **`ns.split("::")`** of a namespace gives back its components -/
theorem split_joinNs (comps : List Str) (hne : comps ≠ []) (h : ∀ c ∈ comps, NoChar 58 c) :
    splitAll (S "::") (joinNs comps) = comps := by
  unfold splitAll
  have e : (S "::").isEmpty = false := by decide
  simp only [e, Bool.false_eq_true, if_false]
  rw [S_cc]
  induction comps with
  | nil => exact absurd rfl hne
  | cons c cs ih =>
    have hc := h c (by simp)
    have hcs : ∀ x ∈ cs, NoChar 58 x := fun x hx => h x (by simp [hx])
    cases cs with
    | nil =>
      simp only [joinNs]
      have := splitAllAux_nochar 58 [58] c [] [] hc
      simp only [List.append_nil] at this
      rw [this]
      simp [splitAllAux]
    | cons d ds =>
      simp only [joinNs]
      rw [S_cc, List.append_assoc, splitAllAux_nochar 58 [58] c _ [] hc]
      have : (58 :: [58]) ++ joinNs (d :: ds) = 58 :: 58 :: joinNs (d :: ds) := rfl
      rw [this, splitAllAux_sep]
      rw [ih (by simp) hcs]
      simp

end Uml
end KojenVerif
