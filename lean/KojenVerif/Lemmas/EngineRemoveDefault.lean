import KojenVerif.Lemmas.EngineReplace
import KojenVerif.Lemmas.EngineContains
/-
  `str.replace('<<<body>>>', rep)` for an arbitrary tag body (with or without `=default`),
  `removeDefault` and `hasSpecificTag` on rendered token lines.
-/
namespace KojenVerif
namespace Engine
open Str

/-- the text of a segment after replacing the tags whose body is `x` by `rep` -/
def segReplaced (x rep : Str) (s : Spec.Seg) : Str := if segBody s = some x then rep else s.render

theorem render_tag_body (s : Spec.Seg) (b : Str) (h : segBody s = some b) : s.render = LLL ++ b ++ GGG := by
  cases s with
  | lit t => cases h
  | tag n d =>
    cases d with
    | none => simp only [segBody, Option.some.injEq] at h; subst h; rfl
    | some d => simp only [segBody, Option.some.injEq] at h; subst h; simp [Spec.Seg.render]

theorem segBody_clean (s : Spec.Seg) (b : Str) (hs : SegOK s) (h : segBody s = some b) : Clean b := by
  cases s with
  | lit t => cases h
  | tag n d =>
    cases d with
    | none => simp only [segBody, Option.some.injEq] at h; subst h; exact hs
    | some d =>
      simp only [segBody, Option.some.injEq] at h; subst h
      exact (hs.1.append clean_eq).append hs.2

/-- **`replace` of a whole tag** on rendered segments, any replacement text -/
theorem replaceAux_segs_gen (x rep : Str) (hx : Clean x) (l : Spec.SLine) (h : LineOK l) (rest : Str) :
    replaceAux (tagPat x) rep 0 (renderSegs l ++ rest) =
      (l.map (segReplaced x rep)).flatten ++ replaceAux (tagPat x) rep 0 rest := by
  induction l with
  | nil => simp [renderSegs]
  | cons s l ih =>
    have hs : SegOK s := h s (by simp)
    have hl : LineOK l := fun y hy => h y (by simp [hy])
    have e : renderSegs (s :: l) ++ rest = s.render ++ (renderSegs l ++ rest) := by simp [renderSegs]
    rw [e]
    cases hb : segBody s with
    | none =>
      cases s with
      | lit t =>
        simp only [Spec.Seg.render]
        rw [replaceAux_noLt x rep t _ (Clean.noLt hs), ih hl]
        simp [segReplaced, segBody, Spec.Seg.render]
      | tag n d => cases d <;> simp [segBody] at hb
    | some b =>
      have hbc := segBody_clean s b hs hb
      rw [render_tag_body s b hb]
      by_cases hxb : x = b
      · subst hxb
        have := replaceAux_tag_eq x rep (renderSegs l ++ rest) hx
        simp only [List.append_assoc] at this ⊢
        rw [this, ih hl]
        simp [segReplaced, hb]
      · have := replaceAux_tag_ne x rep b (renderSegs l ++ rest) hx hbc hxb
        simp only [List.append_assoc] at this ⊢
        rw [this, ih hl]
        have hne : ¬ (some b = some x) := by intro e; injection e with e; exact hxb e.symm
        simp [segReplaced, hb, hne, render_tag_body s b hb]

theorem pyReplace_tag_renderLine (x rep : Str) (hx : Clean x) (l : Spec.SLine) (h : LineOK l) :
    pyReplace (tagPat x) rep (Spec.renderLine l) = (l.map (segReplaced x rep)).flatten ++ [NL] := by
  unfold pyReplace
  have hne : (tagPat x).isEmpty = false := by simp [tagPat, LLL]
  simp only [hne, Bool.false_eq_true, if_false]
  rw [renderLine_eq, replaceAux_segs_gen x rep hx l h [NL]]
  have : replaceAux (tagPat x) rep 0 [NL] = [NL] := by simp [replaceAux, tagPat, LLL, isPrefixB, NL]
  rw [this]

/-! ### `removeDefault` -/

/-- the last tag of the line loses its default — and so does every copy of that tag -/
def dropLastDefault (l : Spec.SLine) : Spec.SLine :=
  match (l.filterMap (fun s => match s with | .tag n d => some (n, d) | .lit _ => none)).getLast? with
  | some (n, some d) => l.map (fun s => if s = .tag n (some d) then .tag n none else s)
  | _ => l

theorem splitOnce_eq_default (n d : Str) (h : NoEq n) : splitOnce EQ (n ++ [61] ++ d) = (n, some d) := by
  unfold splitOnce
  have e : n ++ [61] ++ d = n ++ EQ ++ d := rfl
  rw [e, find_eq_prefix n d h]
  simp [EQ]

theorem splitOnce_eq_plain (n : Str) (h : NoEq n) : splitOnce EQ n = (n, none) := by
  unfold splitOnce
  rw [find_eq_none n h]

theorem filterMap_segBody_getLast (l : Spec.SLine) :
    (l.filterMap segBody).getLast? =
      ((l.filterMap (fun s => match s with | .tag n d => some (n, d) | .lit _ => none)).getLast?).map
        (fun p => match p.2 with | none => p.1 | some d => p.1 ++ [61] ++ d) := by
  have : l.filterMap segBody =
      (l.filterMap (fun s => match s with | .tag n d => some (n, d) | .lit _ => none)).map
        (fun p => match p.2 with | none => p.1 | some d => p.1 ++ [61] ++ d) := by
    induction l with
    | nil => rfl
    | cons s l ih =>
      cases s with
      | lit t => simp only [List.filterMap_cons, segBody]; exact ih
      | tag n d => cases d <;> simp [segBody, ih]
  rw [this, List.getLast?_map]

/-- **`removeDefault` on a rendered line** -/
theorem removeDefault_renderLine (l : Spec.SLine) (h : LineOK l) (hn : NamesOK l) :
    removeDefault (Spec.renderLine l) = Spec.renderLine (dropLastDefault l) := by
  unfold removeDefault
  rw [tagBodies_renderLine l h, filterMap_segBody_getLast]
  unfold dropLastDefault
  cases hlast : (l.filterMap (fun s => match s with | .tag n d => some (n, d) | .lit _ => none)).getLast? with
  | none => rfl
  | some p =>
    obtain ⟨n, d⟩ := p
    -- the last tag is a segment of the line
    have hmem : Spec.Seg.tag n d ∈ l := by
      have hm := List.mem_of_getLast? hlast
      rw [List.mem_filterMap] at hm
      obtain ⟨s, hs, he⟩ := hm
      cases s with
      | lit t => cases he
      | tag n' d' => simp only [Option.some.injEq, Prod.mk.injEq] at he; obtain ⟨e1, e2⟩ := he; subst e1 e2; exact hs
    have hnn : NoEq n := hn _ hmem
    have hok : SegOK (.tag n d) := h _ hmem
    cases d with
    | none =>
      simp only [Option.map_some]
      rw [splitOnce_eq_plain n hnn]
      -- replacing a tag by itself
      have hc : Clean n := hok
      have e : LLL ++ n ++ GGG = tagPat n := rfl
      rw [e, pyReplace_tag_renderLine n (tagPat n) hc l h, renderLine_eq]
      congr 1
      unfold renderSegs
      congr 1
      apply List.map_congr_left
      intro s _
      unfold segReplaced
      by_cases hb : segBody s = some n
      · simp only [hb, if_true]; rw [render_tag_body s n hb]; rfl
      · simp [hb]
    | some d =>
      simp only [Option.map_some]
      rw [splitOnce_eq_default n d hnn]
      have hc : Clean (n ++ [61] ++ d) := (hok.1.append clean_eq).append hok.2
      have e : LLL ++ (n ++ [61] ++ d) ++ GGG = tagPat (n ++ [61] ++ d) := rfl
      have e2 : LLL ++ n ++ GGG = tagPat n := rfl
      rw [e, e2, pyReplace_tag_renderLine _ (tagPat n) hc l h, renderLine_eq]
      congr 1
      unfold renderSegs
      rw [List.map_map]
      congr 1
      apply List.map_congr_left
      intro s hs
      unfold segReplaced
      simp only [Function.comp]
      by_cases hse : s = .tag n (some d)
      · subst hse; simp [segBody, Spec.Seg.render, tagPat]
      · simp only [hse, if_false]
        have : segBody s ≠ some (n ++ [61] ++ d) := by
          intro hb
          cases s with
          | lit t => cases hb
          | tag n' d' =>
            have hn' : NoEq n' := hn _ hs
            cases d' with
            | none =>
              simp only [segBody, Option.some.injEq] at hb
              have : (61 : Nat) ∈ n' := by rw [hb]; simp
              exact hn' 61 this rfl
            | some d' =>
              simp only [segBody, Option.some.injEq] at hb
              -- split both sides at the first '='
              have h1 := splitOnce_eq_default n' d' hn'
              have h2 := splitOnce_eq_default n d hnn
              rw [hb, h2] at h1
              simp only [Prod.mk.injEq, Option.some.injEq] at h1
              exact hse (by rw [h1.1, h1.2])
        have this' : segBody s ≠ some (n ++ 61 :: d) := by simpa using this
        simp [this']

end Engine
end KojenVerif
