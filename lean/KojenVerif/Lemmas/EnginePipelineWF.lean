import KojenVerif.Lemmas.EnginePipeline
import KojenVerif.Lemmas.EngineSecondWF
/-
  Executable version of `FileOK`, the grammar of `file_pipeline`.
-/
namespace KojenVerif
namespace Engine
open Str

instance (s : Str) : Decidable (NoEq s) := by unfold NoEq; exact inferInstance

def literalOKB (dict fd : List (Str × Str)) (raw : Str) : Bool :=
  decide (Clean raw) && decide (NoEq raw) && (lookup dict raw).isNone && (lookup fd raw).isNone

def uLoopOKB (dict fd : List (Str × Str)) (ws : Str) (p : Spec.ForParam) (body : List Spec.BItem) : Bool :=
  decide (Clean ws) &&
  (match p with | .list raw => literalOKB dict fd raw | .count raw => literalOKB dict fd raw | .userTag _ _ => false) &&
  body.all userPlainB && userPlainB (endItem ws) && (Spec.lookupS dict (T "FOR_END")).isNone

theorem literalOKB_sound (dict fd : List (Str × Str)) (raw : Str) (h : literalOKB dict fd raw = true) :
    Clean raw ∧ NoEq raw ∧ lookup dict raw = none ∧ lookup fd raw = none := by
  simp only [literalOKB, Bool.and_eq_true, decide_eq_true_eq, Option.isNone_iff_eq_none] at h
  exact ⟨h.1.1.1, h.1.1.2, h.1.2, h.2⟩

theorem uLoopOKB_sound (dict fd : List (Str × Str)) (ws : Str) (p : Spec.ForParam) (body : List Spec.BItem)
    (h : uLoopOKB dict fd ws p body = true) : ULoopOK dict fd ws p body := by
  simp only [uLoopOKB, Bool.and_eq_true, decide_eq_true_eq, List.all_eq_true, Option.isNone_iff_eq_none] at h
  obtain ⟨⟨⟨⟨hw, hp⟩, hb⟩, he⟩, hn⟩ := h
  refine ⟨hw, ?_, fun i hi => userPlainB_sound i (hb i hi), userPlainB_sound _ he, hn⟩
  cases p with
  | list raw => exact literalOKB_sound dict fd raw hp
  | count raw => exact literalOKB_sound dict fd raw hp
  | userTag n d => cases hp

def uItemOK2B (dict fd : List (Str × Str)) : Spec.Item → Bool
  | .loop ws p body => uLoopOKB dict fd ws p body
  | it => uItemOKB it

theorem uItemOK2B_sound (dict fd : List (Str × Str)) (it : Spec.Item) (h : uItemOK2B dict fd it = true) : UItemOK2 dict fd it := by
  cases it with
  | loop ws p body => exact UItemOK2.loop ws p body (uLoopOKB_sound dict fd ws p body h)
  | b i => exact UItemOK2.base _ (uItemOKB_sound _ h)
  | cond ws brs els => exact UItemOK2.base _ (uItemOKB_sound _ h)
  | block k ws body => exact UItemOK2.base _ (uItemOKB_sound _ h)
  | pst ws body => exact UItemOK2.base _ (uItemOKB_sound _ h)

instance : (i : Spec.BItem) → Decidable (ForItemOK i)
  | .line _ => by unfold ForItemOK; exact inferInstance
  | .blank _ => by unfold ForItemOK; exact inferInstance

def forBodyOKB (body : List Spec.BItem) : Bool :=
  body.all (fun i => decide (ForItemOK i)) &&
  body.all (fun i => !(Spec.hasTagNamed FIRSTk i && Spec.hasTagNamed LASTk i))

theorem forBodyOKB_sound (body : List Spec.BItem) (h : forBodyOKB body = true) :
    (∀ i ∈ body, ForItemOK i) ∧ ∀ i ∈ body, ¬ (Spec.hasTagNamed FIRSTk i = true ∧ Spec.hasTagNamed LASTk i = true) := by
  simp only [forBodyOKB, Bool.and_eq_true, List.all_eq_true, decide_eq_true_eq, Bool.not_eq_true'] at h
  refine ⟨h.1, fun i hi hb => ?_⟩
  have := h.2 i hi
  simp [hb.1, hb.2] at this

def forFileItemOKB (it : Spec.Item) : Bool :=
  chunkOKB FORB FORE (forChunk it) &&
  match it with
  | .loop ws (.list raw) body =>
    decide (Clean ws) && decide (Clean raw) && (find COMMA raw).isSome && !isNumeric (strip raw) && forBodyOKB body
  | .loop ws (.count raw) body =>
    decide (Clean ws) && decide (Clean raw) && !(find COMMA raw).isSome && isNumeric (strip raw) && forBodyOKB body
  | .loop _ _ _ => false
  | _ => true

theorem forFileItemOKB_sound (it : Spec.Item) (h : forFileItemOKB it = true) : ForFileItemOK it := by
  simp only [forFileItemOKB, Bool.and_eq_true] at h
  refine ⟨chunkOKB_sound _ _ _ h.1, ?_⟩
  have h2 := h.2
  cases it with
  | b i => trivial
  | block k ws body => trivial
  | pst ws body => trivial
  | cond ws brs els => trivial
  | loop ws p body =>
    cases p with
    | list raw =>
      simp only [Bool.and_eq_true, decide_eq_true_eq, Bool.not_eq_true'] at h2
      obtain ⟨⟨⟨⟨hw, hr⟩, hc⟩, hn⟩, hb⟩ := h2
      have := forBodyOKB_sound body hb
      exact ⟨hw, hr, hc, hn, this.1, this.2, forValues_of_clean raw hr⟩
    | count raw =>
      simp only [Bool.and_eq_true, decide_eq_true_eq, Bool.not_eq_true'] at h2
      obtain ⟨⟨⟨⟨hw, hr⟩, hc⟩, hn⟩, hb⟩ := h2
      have := forBodyOKB_sound body hb
      exact ⟨hw, hr, hc, hn, this.1, this.2⟩
    | userTag n d => cases h2

/-- a loaded file is inside the domain of `file_pipeline` -/
def fileOKB (m : Spec.Model) (dict fd : List (Str × Str)) (items : List Spec.Item) : Bool :=
  secondOKB m items && (secondOut m items).all (uItemOK2B dict fd) &&
  ((secondOut m items).flatMap (userItemOut dict)).all forFileItemOKB

theorem fileOKB_sound (m : Spec.Model) (dict fd : List (Str × Str)) (items : List Spec.Item) (h : fileOKB m dict fd items = true) :
    FileOK m dict fd items := by
  simp only [fileOKB, Bool.and_eq_true, List.all_eq_true] at h
  exact ⟨secondOKB_sound m items h.1.1, fun it hit => uItemOK2B_sound dict fd it (h.1.2 it hit),
    fun it hit => forFileItemOKB_sound it (h.2 it hit)⟩

end Engine
end KojenVerif
