import KojenVerif.Lemmas.EngineReplace
/-
  `PairExpander.Expand` over a file cut into chunks (lines outside / one block), and the
  per-element expansion of a block body (`innerexpand_secondfiltering`, name and counter tags).
-/
namespace KojenVerif
namespace Engine
open Str

/-! ### PairExpander over chunks -/

inductive Chunk where
  | plain (ls : List Line)
  | block (b : Line) (body : List Line) (e : Line)

def Chunk.lines : Chunk → List Line
  | .plain ls => ls
  | .block b body e => [b] ++ body ++ [e]

def isMark (kw : Str) (line : Line) : Bool := hasTag line && contains kw line

/-- the `=parameter` of a begin line (what follows the first '=' between the first `<<<` and
    the last `>>>`), or nothing -/
def blockParam (b : Line) : Str := if hasDefault b then (extractDefaultAndTag b).2 else []

/-- conditions under which a chunk is what it says for the pass with keywords `sk` / `ek` -/
def Chunk.OK (sk ek : Str) : Chunk → Prop
  | .plain ls => ∀ l ∈ ls, isMark sk l = false ∧ isMark ek l = false
  | .block b body e =>
    (isMark sk b = true ∧ isMark ek b = false) ∧
    (∀ l ∈ body, isMark sk l = false ∧ isMark ek l = false) ∧
    (isMark ek e = true ∧ isMark sk e = false)

theorem pairFold_plain (sk ek : Str) (f : List Line → Str → Option (List Line)) (ls rest : List Line)
    (h : ∀ l ∈ ls, isMark sk l = false ∧ isMark ek l = false) (sn : List Line) (pa : Str) (ou : List Line) :
    pairFold sk ek f ⟨false, sn, pa, ou⟩ (ls ++ rest) = pairFold sk ek f ⟨false, sn, pa, ou ++ ls⟩ rest := by
  induction ls generalizing ou with
  | nil => simp
  | cons l ls ih =>
    have hl := h l (by simp)
    have hls : ∀ x ∈ ls, isMark sk x = false ∧ isMark ek x = false := fun x hx => h x (by simp [hx])
    have b0 : (hasTag l && contains sk l) = false := hl.1
    have e0 : (hasTag l && contains ek l) = false := hl.2
    simp only [List.cons_append, pairFold, pairStep, b0, e0, Bool.or_self, Bool.false_and, Bool.false_eq_true, if_false,
      Bool.not_false, Bool.and_self, if_true]
    rw [ih hls]
    simp

theorem pairFold_inside (sk ek : Str) (f : List Line → Str → Option (List Line)) (body rest : List Line)
    (h : ∀ l ∈ body, isMark sk l = false ∧ isMark ek l = false) (sn : List Line) (pa : Str) (ou : List Line) :
    pairFold sk ek f ⟨true, sn, pa, ou⟩ (body ++ rest) = pairFold sk ek f ⟨true, sn ++ body, pa, ou⟩ rest := by
  induction body generalizing sn with
  | nil => simp
  | cons l ls ih =>
    have hl := h l (by simp)
    have hls : ∀ x ∈ ls, isMark sk x = false ∧ isMark ek x = false := fun x hx => h x (by simp [hx])
    have b0 : (hasTag l && contains sk l) = false := hl.1
    have e0 : (hasTag l && contains ek l) = false := hl.2
    simp only [List.cons_append, pairFold, pairStep, b0, e0, Bool.or_true, Bool.false_and, Bool.false_eq_true, if_false,
      Bool.not_false, Bool.and_self, if_true, Bool.and_false, Bool.not_true, Bool.and_true]
    rw [ih hls]
    simp

theorem pairFold_block (sk ek : Str) (f : List Line → Str → Option (List Line)) (b e : Line) (body rest : List Line)
    (hb : isMark sk b = true ∧ isMark ek b = false)
    (hbody : ∀ l ∈ body, isMark sk l = false ∧ isMark ek l = false)
    (he : isMark ek e = true ∧ isMark sk e = false)
    (ou : List Line) :
    pairFold sk ek f ⟨false, [], [], ou⟩ (b :: (body ++ e :: rest)) =
      match f body (blockParam b) with
      | some add => pairFold sk ek f ⟨false, [], [], ou ++ add⟩ rest
      | none => none := by
  have b1 : (hasTag b && contains sk b) = true := hb.1
  have b2 : (hasTag b && contains ek b) = false := hb.2
  have e1 : (hasTag e && contains ek e) = true := he.1
  have e2 : (hasTag e && contains sk e) = false := he.2
  -- the begin line
  have s1 : pairStep sk ek f ⟨false, [], [], ou⟩ b = some ⟨true, [], blockParam b, ou⟩ := by
    unfold blockParam
    by_cases hd : hasDefault b = true <;> simp [pairStep, b1, b2, hd]
  rw [pairFold, s1]
  simp only
  rw [pairFold_inside sk ek f body _ hbody]
  simp only [pairFold, List.nil_append]
  -- the end line
  simp only [pairStep, e1, e2, Bool.false_or, Bool.true_and, if_true, Bool.false_and, Bool.false_eq_true, if_false,
    Bool.not_true, Bool.and_false, Bool.and_self, Bool.or_true]
  cases f body (blockParam b) <;> simp

theorem concatOpt_some_cons (a : List Line) (r : List (Option (List Line))) :
    concatOpt (some a :: r) = (concatOpt r).map (a ++ ·) := rfl
theorem concatOpt_none_cons (r : List (Option (List Line))) : concatOpt (none :: r) = none := rfl

def chunkOut (f : List Line → Str → Option (List Line)) : Chunk → Option (List Line)
  | .plain ls => some ls
  | .block b body _ => f body (blockParam b)

theorem pairFold_chunks (sk ek : Str) (f : List Line → Str → Option (List Line)) (cs : List Chunk)
    (h : ∀ c ∈ cs, c.OK sk ek) (ou : List Line) :
    (pairFold sk ek f ⟨false, [], [], ou⟩ ((cs.map Chunk.lines).flatten)).map (·.out) =
      (concatOpt (cs.map (chunkOut f))).map (ou ++ ·) := by
  induction cs generalizing ou with
  | nil => simp [pairFold, concatOpt]
  | cons c cs ih =>
    have hc := h c (by simp)
    have hcs : ∀ x ∈ cs, x.OK sk ek := fun x hx => h x (by simp [hx])
    simp only [List.map_cons, List.flatten_cons, concatOpt]
    cases c with
    | plain ls =>
      simp only [Chunk.lines, chunkOut]
      rw [pairFold_plain sk ek f ls _ hc, ih hcs, concatOpt_some_cons]
      generalize concatOpt (cs.map (chunkOut f)) = o
      cases o <;> simp
    | block b body e =>
      simp only [Chunk.lines, chunkOut]
      obtain ⟨hb, hbody, he⟩ := hc
      have er : [b] ++ body ++ [e] ++ (cs.map Chunk.lines).flatten = b :: (body ++ e :: (cs.map Chunk.lines).flatten) := by simp
      rw [er, pairFold_block sk ek f b e body _ hb hbody he]
      cases hf : f body (blockParam b) with
      | none => simp [concatOpt_none_cons]
      | some add =>
        simp only
        rw [ih hcs, concatOpt_some_cons]
        generalize concatOpt (cs.map (chunkOut f)) = o
        cases o <;> simp

/-- **`PairExpander.Expand` on a file of chunks**: text outside blocks is passed through, each
    block is replaced by what the expansion function makes of its body, in place -/
theorem pairExpand_chunks (startTag endTag : Str) (f : List Line → Str → Option (List Line)) (cs : List Chunk)
    (h : ∀ c ∈ cs, c.OK (cleanTag startTag) (cleanTag endTag)) :
    pairExpand startTag endTag f ((cs.map Chunk.lines).flatten) = concatOpt (cs.map (chunkOut f)) := by
  unfold pairExpand
  have := pairFold_chunks (cleanTag startTag) (cleanTag endTag) f cs h []
  have e : ({} : PE) = ⟨false, [], [], []⟩ := rfl
  rw [e, this]
  cases concatOpt (cs.map (chunkOut f)) <;> simp

end Engine
end KojenVerif
