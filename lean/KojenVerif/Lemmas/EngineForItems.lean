import KojenVerif.Lemmas.EngineFor
import KojenVerif.Lemmas.EngineNested
import KojenVerif.Lemmas.EngineProto
/-
  `innerexpand_for_loop` at item level: a FOR block over a literal list is the specification's
  `Spec.expandLoop`, and `do_for` over a whole file of lines and loops.
-/
namespace KojenVerif
namespace Engine
open Str

def FIRSTk : Str := T "FIRST"
def LASTk : Str := T "LAST"

theorem firstk_ok : KwOK FIRSTk := kwOK_of _ (by decide)
theorem lastk_ok : KwOK LASTk := kwOK_of _ (by decide)

/-- FIRST / LAST discipline of a segment: literal runs and alternative texts mention neither keyword,
    a tag is named FIRST or LAST or mentions neither -/
def segFL : Spec.Seg → Prop
  | .lit t => contains FIRSTk t = false ∧ contains LASTk t = false
  | .tag n none => n = FIRSTk ∨ n = LASTk ∨ (contains FIRSTk n = false ∧ contains LASTk n = false)
  | .tag n (some a) => (n = FIRSTk ∨ n = LASTk ∨ (contains FIRSTk n = false ∧ contains LASTk n = false)) ∧
      contains FIRSTk a = false ∧ contains LASTk a = false

instance : (s : Spec.Seg) → Decidable (segFL s)
  | .lit _ => by unfold segFL; exact inferInstance
  | .tag _ none => by unfold segFL; exact inferInstance
  | .tag _ (some _) => by unfold segFL; exact inferInstance

theorem segHas_first (s : Spec.Seg) (h : segFL s) : segHas FIRSTk s = isNamed FIRSTk s := by
  have nm : ∀ n, (n = FIRSTk ∨ n = LASTk ∨ (contains FIRSTk n = false ∧ contains LASTk n = false)) →
      contains FIRSTk n = (n == FIRSTk) := by
    intro n hn
    rcases hn with e | e | e
    · subst e; decide
    · subst e; decide
    · rw [e.1]
      cases hb : (n == FIRSTk) with
      | false => rfl
      | true =>
        have : n = FIRSTk := by simpa using hb
        subst this
        exact absurd e.1 (by decide)
  cases s with
  | lit t => simp only [segHas, isNamed]; exact h.1
  | tag n d =>
    cases d with
    | none => simp only [segHas, isNamed]; exact nm n h
    | some a => simp only [segHas, isNamed]; rw [nm n h.1, h.2.1, Bool.or_false]

theorem segHas_last (s : Spec.Seg) (h : segFL s) : segHas LASTk s = isNamed LASTk s := by
  have nm : ∀ n, (n = FIRSTk ∨ n = LASTk ∨ (contains FIRSTk n = false ∧ contains LASTk n = false)) →
      contains LASTk n = (n == LASTk) := by
    intro n hn
    rcases hn with e | e | e
    · subst e; decide
    · subst e; decide
    · rw [e.2]
      cases hb : (n == LASTk) with
      | false => rfl
      | true =>
        have : n = LASTk := by simpa using hb
        subst this
        exact absurd e.2 (by decide)
  cases s with
  | lit t => simp only [segHas, isNamed]; exact h.2
  | tag n d =>
    cases d with
    | none => simp only [segHas, isNamed]; exact nm n h
    | some a => simp only [segHas, isNamed]; rw [nm n h.1, h.2.2, Bool.or_false]

theorem any_congr_mem {α} (l : List α) (p q : α → Bool) (h : ∀ x ∈ l, p x = q x) : l.any p = l.any q := by
  induction l with
  | nil => rfl
  | cons a l ih =>
    simp only [List.any_cons, h a (by simp), ih (fun x hx => h x (by simp [hx]))]

theorem find?_congr_mem {α} (l : List α) (p q : α → Bool) (h : ∀ x ∈ l, p x = q x) : l.find? p = l.find? q := by
  induction l with
  | nil => rfl
  | cons a l ih =>
    simp only [List.find?_cons, h a (by simp), ih (fun x hx => h x (by simp [hx]))]

theorem any_isNamed_merge (kw : Str) (l : Spec.SLine) : (merge l).any (isNamed kw) = l.any (isNamed kw) := by
  have : ∀ m : Spec.SLine, m.any (isNamed kw) = (tagsOf m).any (fun p => p.1 == kw) := by
    intro m
    induction m with
    | nil => rfl
    | cons s m ih => cases s <;> simp [isNamed, tagsOf, ih]
  rw [this, this, tagsOf_merge]

/-- the grammar of a FOR body item -/
def ForItemOK : Spec.BItem → Prop
  | .line l => LineOK l ∧ ∀ s ∈ merge l, segFL s
  | .blank t => Clean t

theorem hasTagNamed_eq (kw : Str) (l : Spec.SLine) : Spec.hasTagNamed kw (.line l) = l.any (isNamed kw) := by
  simp only [Spec.hasTagNamed]
  congr 1

theorem hasTag_blank (t : Str) (h : Clean t) : hasTag (t ++ [NL]) = false := by
  unfold hasTag tagBodies
  have := tagBodiesAux_clean (t ++ [NL]) [] (h.append clean_nl)
  simp only [List.append_nil] at this
  rw [this]; rfl

theorem isFirstL_item (i : Spec.BItem) (h : ForItemOK i) : isFirstL i.render = Spec.hasTagNamed FIRSTk i := by
  cases i with
  | blank t => simp [isFirstL, hasSpecificTag, Spec.BItem.render, hasTag_blank t h, Spec.hasTagNamed]
  | line l =>
    obtain ⟨hl, hs⟩ := h
    unfold isFirstL hasSpecificTag
    have e : cleanTag (T "<<<FIRST>>>") = FIRSTk := by decide
    simp only [Spec.BItem.render]
    rw [e, contains_renderLine' FIRSTk firstk_ok l, hasTag_renderLine l hl, hasTagNamed_eq, ← any_isNamed_merge]
    have : (merge l).any (segHas FIRSTk) = (merge l).any (isNamed FIRSTk) := by
      exact any_congr_mem _ _ _ (fun s hs' => segHas_first s (hs s hs'))
    rw [this, any_isNamed_merge]
    cases ht : tagsOf l with
    | cons p r => simp
    | nil =>
      have : l.any (isNamed FIRSTk) = false := by
        have e2 : ∀ m : Spec.SLine, m.any (isNamed FIRSTk) = (tagsOf m).any (fun p => p.1 == FIRSTk) := by
          intro m
          induction m with
          | nil => rfl
          | cons s m ih => cases s <;> simp [isNamed, tagsOf, ih]
        rw [e2, ht]; rfl
      simp [this]

theorem isLastL_item (i : Spec.BItem) (h : ForItemOK i) : isLastL i.render = Spec.hasTagNamed LASTk i := by
  cases i with
  | blank t => simp [isLastL, hasSpecificTag, Spec.BItem.render, hasTag_blank t h, Spec.hasTagNamed]
  | line l =>
    obtain ⟨hl, hs⟩ := h
    unfold isLastL hasSpecificTag
    have e : cleanTag (T "<<<LAST>>>") = LASTk := by decide
    simp only [Spec.BItem.render]
    rw [e, contains_renderLine' LASTk lastk_ok l, hasTag_renderLine l hl, hasTagNamed_eq, ← any_isNamed_merge]
    have : (merge l).any (segHas LASTk) = (merge l).any (isNamed LASTk) := by
      exact any_congr_mem _ _ _ (fun s hs' => segHas_last s (hs s hs'))
    rw [this, any_isNamed_merge]
    cases ht : tagsOf l with
    | cons p r => simp
    | nil =>
      have : l.any (isNamed LASTk) = false := by
        have e2 : ∀ m : Spec.SLine, m.any (isNamed LASTk) = (tagsOf m).any (fun p => p.1 == LASTk) := by
          intro m
          induction m with
          | nil => rfl
          | cons s m ih => cases s <;> simp [isNamed, tagsOf, ih]
        rw [e2, ht]; rfl
      simp [this]

/-! ### digits -/

theorem natToStrAux_digits (fuel n : Nat) (acc : Str) (h : ∀ c ∈ acc, 48 ≤ c ∧ c ≤ 57) :
    ∀ c ∈ natToStrAux fuel n acc, 48 ≤ c ∧ c ≤ 57 := by
  induction fuel generalizing n acc with
  | zero => exact h
  | succ fuel ih =>
    simp only [natToStrAux]
    have h' : ∀ c ∈ (48 + n % 10) :: acc, 48 ≤ c ∧ c ≤ 57 := by
      intro c hc
      simp only [List.mem_cons] at hc
      rcases hc with e | e
      · subst e; constructor <;> omega
      · exact h c e
    split
    · exact h'
    · exact ih _ _ h'

theorem natToStr_clean (n : Nat) : Clean (natToStr n) := by
  intro c hc
  have := natToStrAux_digits (n + 1) n [] (fun _ h => by cases h) c hc
  constructor <;> omega

/-! ### the loop body, item by item -/

/-- what a FOR block over the items `items` (not empty) produces -/
def loopOut (items : List Str) (body : List Spec.BItem) : List Spec.BItem :=
  (match body.find? (Spec.hasTagNamed FIRSTk) with
   | some f => [f.subst (Spec.byDict [(FIRSTk, items.head?.getD [])])] | none => []) ++
  ((enumFrom 0 items).map (fun q =>
    (body.filter (fun i => !Spec.hasTagNamed FIRSTk i && !Spec.hasTagNamed LASTk i)).map
      (Spec.BItem.subst (Spec.byDict ([(T "EACH", q.2), (T "each", camelSmall q.2)] ++ Spec.counterTags q.1))))).flatten ++
  (match body.find? (fun i => Spec.hasTagNamed LASTk i && !Spec.hasTagNamed FIRSTk i) with
   | some l => [l.subst (Spec.byDict [(LASTk, items.getLast?.getD [])])] | none => [])

theorem expandLoop_eq (fd ut : List (Str × Str)) (p : Spec.ForParam) (body : List Spec.BItem) (items : List Str)
    (h : Spec.forItems fd p ut = some items) (hne : items ≠ []) :
    Spec.expandLoop fd ut p body = some (loopOut items body) := by
  unfold Spec.expandLoop
  rw [h]
  have : items.isEmpty = false := by cases items <;> simp_all
  simp only [this, Bool.false_eq_true, if_false]
  rfl

theorem enumFrom_map {α β} (f : α → β) (k : Nat) (l : List α) :
    enumFrom k (l.map f) = (enumFrom k l).map (fun p => (p.1, f p.2)) := by
  induction l generalizing k with
  | nil => rfl
  | cons a l ih => simp only [List.map_cons, enumFrom, ih]

theorem forItemOK_b (i : Spec.BItem) (h : ForItemOK i) : BItemOK i := by
  cases i with
  | line l => exact h.1
  | blank t => exact h

theorem byDict_each (idx : Nat) (item : Str) :
    Spec.byDict (eachKeys idx item) =
      Spec.byDict ([(T "EACH", strip item), (T "each", camelSmall (strip item))] ++ Spec.counterTags idx) := by
  funext n d
  cases d with
  | some d => simp only [Spec.byDict]
  | none =>
    show Spec.lookupS (eachKeys idx item) n = Spec.lookupS _ n
    simp only [eachKeys, Spec.counterTags, List.cons_append, List.nil_append, lookupS_cons]
    by_cases h1 : T "EACH" = n
    · simp [h1]
    · by_cases h2 : T "each" = n
      · simp [h2]
      · simp only [h1, h2, if_false]
        rw [← lookupS_cons, ← lookupS_cons, ← lookupS_cons, ← lookupS_cons]
        exact lookupS_swap _ _ _ _ _ (by decide) n

/-- the values a FOR list may carry: every item, stripped, and its camel-case variant are free of angle brackets -/
def ForValuesOK (raw : Str) : Prop := ∀ it ∈ forItems raw, Clean (strip it) ∧ Clean (camelSmall (strip it))

theorem eachKeys_chain (idx : Nat) (item : Str) (hv : Clean (strip item)) (hc : Clean (camelSmall (strip item))) :
    ChainOK (eachKeys idx item) := by
  constructor
  · intro kv hkv
    simp only [eachKeys, List.mem_cons, List.mem_nil_iff, or_false] at hkv
    rcases hkv with e | e | e | e <;> subst e <;> exact ⟨(by decide : Clean (T _)), (by decide : NoEq (T _))⟩
  · intro kv hkv
    simp only [eachKeys, List.mem_cons, List.mem_nil_iff, or_false] at hkv
    rcases hkv with e | e | e | e <;> subst e
    · exact hv
    · exact hc
    · exact natToStr_clean idx
    · intro c hc'
      simp only [List.mem_singleton] at hc'
      subst hc'
      rw [alphaOf_eq]
      unfold cyc
      split <;> constructor <;> omega

theorem mem_enumFrom {α} (k : Nat) (l : List α) (p : Nat × α) (h : p ∈ enumFrom k l) : p.2 ∈ l := by
  induction l generalizing k with
  | nil => cases h
  | cons a l ih =>
    simp only [enumFrom, List.mem_cons] at h
    rcases h with e | e
    · subst e; simp
    · exact List.mem_cons_of_mem _ (ih _ e)

/-- **`__process` on a body of items** -/
theorem forProcess_items (raw : Str) (body : List Spec.BItem) (hb : ∀ i ∈ body, ForItemOK i)
    (hnb : ∀ i ∈ body, ¬ (Spec.hasTagNamed FIRSTk i = true ∧ Spec.hasTagNamed LASTk i = true))
    (hv : ForValuesOK raw) :
    forProcess raw (body.map Spec.BItem.render) = (loopOut ((forItems raw).map strip) body).map Spec.BItem.render := by
  have hne := splitAll_ne_nil COMMA (rstripChars COMMA (lstripChars COMMA (strip raw)))
  have hnb' : NoBoth (body.map Spec.BItem.render) := by
    intro l hl
    simp only [List.mem_map] at hl
    obtain ⟨i, hi, rfl⟩ := hl
    rw [isFirstL_item i (hb i hi), isLastL_item i (hb i hi)]
    exact hnb i hi
  have hnz : ∀ l ∈ body.map Spec.BItem.render, ∀ v, pyReplace (T "<<<FIRST>>>") v l ≠ [] ∧ pyReplace (T "<<<LAST>>>") v l ≠ [] := by
    intro l hl v
    simp only [List.mem_map] at hl
    obtain ⟨i, hi, rfl⟩ := hl
    have hok := forItemOK_b i (hb i hi)
    have key : ∀ x : Str, Clean x → pyReplace (tagPat x) v i.render ≠ [] := by
      intro x hx
      cases i with
      | line l => simp only [Spec.BItem.render]; rw [pyReplace_tag_renderLine x v hx l hok]; simp
      | blank t =>
        have hl : LineOK [.lit t] := by intro s hs; simp only [List.mem_singleton] at hs; subst hs; exact hok
        rw [blank_as_line, pyReplace_tag_renderLine x v hx _ hl]; simp
    exact ⟨key FIRSTk (by decide), key LASTk (by decide)⟩
  rw [forProcess_eq raw _ hnb' hnz]
  unfold loopOut
  simp only [List.map_append]
  -- the items
  have hitems : forItems raw ≠ [] := hne
  have hhead : ((forItems raw).map strip).head?.getD [] = strip ((forItems raw).head?.getD []) := by
    cases h : forItems raw with
    | nil => exact absurd h hitems
    | cons a r => rfl
  have hlast : ((forItems raw).map strip).getLast?.getD [] = strip ((forItems raw).getLast?.getD []) := by
    rw [List.getLast?_map]
    cases h : (forItems raw).getLast? with
    | none => rw [List.getLast?_eq_none_iff] at h; exact absurd h hitems
    | some a => rfl
  have hheadc : Clean (strip ((forItems raw).head?.getD [])) := by
    cases h : forItems raw with
    | nil => exact absurd h hitems
    | cons a r => exact (hv a (by rw [h]; simp)).1
  have hlastc : Clean (strip ((forItems raw).getLast?.getD [])) := by
    cases h : (forItems raw).getLast? with
    | none => rw [List.getLast?_eq_none_iff] at h; exact absurd h hitems
    | some a => exact (hv a (List.mem_of_getLast? h)).1
  congr 1
  · congr 1
    · -- FIRST line
      rw [List.find?_map]
      have : body.find? (isFirstL ∘ Spec.BItem.render) = body.find? (Spec.hasTagNamed FIRSTk) := by
        exact find?_congr_mem _ _ _ (fun i hi => isFirstL_item i (hb i hi))
      rw [this, hhead]
      cases hf : body.find? (Spec.hasTagNamed FIRSTk) with
      | none => rfl
      | some f =>
        have hfm : f ∈ body := List.mem_of_find?_eq_some hf
        have hc1 : ChainOK [(FIRSTk, strip ((forItems raw).head?.getD []))] :=
          ⟨fun kv hkv => by
              simp only [List.mem_singleton] at hkv; subst hkv
              exact ⟨(by decide : Clean FIRSTk), (by decide : NoEq FIRSTk)⟩,
           fun kv hkv => by simp only [List.mem_singleton] at hkv; subst hkv; exact hheadc⟩
        have := applySubst_bitem _ hc1 f (forItemOK_b f (hb f hfm))
        simp only [Option.map_some, Option.toList, List.map_cons, List.map_nil]
        rw [← this]; rfl
    · -- the lines repeated per item
      rw [enumFrom_map, List.map_map, List.map_flatten, List.map_map]
      congr 1
      apply List.map_congr_left
      intro p hp
      simp only [Function.comp]
      have hpm := mem_enumFrom 0 _ p hp
      have hck := eachKeys_chain p.1 p.2 (hv p.2 hpm).1 (hv p.2 hpm).2
      rw [List.filter_map, List.map_map, List.map_map]
      have hfilt : body.filter (isRestL ∘ Spec.BItem.render) =
          body.filter (fun i => !Spec.hasTagNamed FIRSTk i && !Spec.hasTagNamed LASTk i) := by
        apply List.filter_congr
        intro i hi
        simp only [Function.comp, isRestL, isFirstL_item i (hb i hi), isLastL_item i (hb i hi)]
      rw [hfilt]
      apply List.map_congr_left
      intro i hi
      have him : i ∈ body := (List.mem_filter.mp hi).1
      simp only [Function.comp]
      rw [eachChain_eq, applySubst_bitem _ hck i (forItemOK_b i (hb i him)), byDict_each]
  · -- LAST line
    rw [List.find?_map]
    have : body.find? (isLastL ∘ Spec.BItem.render) =
        body.find? (fun i => Spec.hasTagNamed LASTk i && !Spec.hasTagNamed FIRSTk i) := by
      apply find?_congr_mem
      intro i hi
      simp only [Function.comp, isLastL_item i (hb i hi)]
      have := hnb i hi
      cases h1 : Spec.hasTagNamed LASTk i <;> cases h2 : Spec.hasTagNamed FIRSTk i <;> simp_all
    rw [this, hlast]
    cases hf : body.find? (fun i => Spec.hasTagNamed LASTk i && !Spec.hasTagNamed FIRSTk i) with
    | none => rfl
    | some f =>
      have hfm : f ∈ body := List.mem_of_find?_eq_some hf
      have hc1 : ChainOK [(LASTk, strip ((forItems raw).getLast?.getD []))] :=
        ⟨fun kv hkv => by
            simp only [List.mem_singleton] at hkv; subst hkv
            exact ⟨(by decide : Clean LASTk), (by decide : NoEq LASTk)⟩,
         fun kv hkv => by simp only [List.mem_singleton] at hkv; subst hkv; exact hlastc⟩
      have := applySubst_bitem _ hc1 f (forItemOK_b f (hb f hfm))
      simp only [Option.map_some, Option.toList, List.map_cons, List.map_nil]
      rw [← this]; rfl

/-! ### a FOR block over a literal list, and `do_for` over a file -/

/-- the grammar of a FOR block whose parameter is a literal list -/
structure LoopOK (ws raw : Str) (body : List Spec.BItem) : Prop where
  wsOK : Clean ws
  rawOK : Clean raw
  csv : (find COMMA raw).isSome = true
  notnum : isNumeric (strip raw) = false
  items : ∀ i ∈ body, ForItemOK i
  noboth : ∀ i ∈ body, ¬ (Spec.hasTagNamed FIRSTk i = true ∧ Spec.hasTagNamed LASTk i = true)
  values : ForValuesOK raw

theorem spec_forItems_list (fd ut : List (Str × Str)) (raw : Str) (hcsv : (find COMMA raw).isSome = true)
    (hnum : isNumeric (strip raw) = false) :
    Spec.forItems fd (.list raw) ut = some ((forItems raw).map strip) := by
  simp only [Spec.forItems, hcsv, hnum, Bool.not_false, Bool.and_self, if_true]
  rfl

theorem forExpand_list (ws raw : Str) (body : List Spec.BItem) (h : LoopOK ws raw body) :
    forExpand (body.map Spec.BItem.render) raw = some ((loopOut ((forItems raw).map strip) body).map Spec.BItem.render) := by
  unfold forExpand
  have hne : raw.isEmpty = false := by
    cases raw with
    | nil => have := h.csv; simp [find, COMMA] at this
    | cons c r => rfl
  simp only [hne, Bool.false_eq_true, if_false, h.csv, h.notnum, Bool.not_false, Bool.and_self, if_true]
  rw [forProcess_items raw body h.items h.noboth h.values]

/-- **a FOR block over a literal list is the specification's loop** -/
theorem forExpand_spec (fd ut : List (Str × Str)) (ws raw : Str) (body : List Spec.BItem) (h : LoopOK ws raw body) :
    (forExpand (body.map Spec.BItem.render) raw).map (fun ls => ls) =
      (Spec.expandLoop fd ut (.list raw) body).map (fun bs => bs.map Spec.BItem.render) := by
  have hne : (forItems raw).map strip ≠ [] := by
    have := splitAll_ne_nil COMMA (rstripChars COMMA (lstripChars COMMA (strip raw)))
    intro e
    exact this (List.map_eq_nil_iff.mp e)
  rw [forExpand_list ws raw body h, expandLoop_eq fd ut (.list raw) body _ (spec_forItems_list fd ut raw h.csv h.notnum) hne]
  rfl

end Engine
end KojenVerif
