import KojenVerif.Lemmas.EngineSecond
import KojenVerif.Lemmas.EngineNestedWF
/-
  Executable version of `SecondOK`, the grammar of `expandSecond_items`.
-/
namespace KojenVerif
namespace Engine
open Str

def bodyOKB (m : Spec.Model) (k : Spec.Kind) (body : List Spec.BItem) : Bool :=
  match k with
  | .pasig => body.all (fun i => match i with | .line l => decide (LineOK l) | .blank t => decide (Clean t)) &&
              (enumFrom 0 (Table.actionSigs m.table)).all (fun q => chainOKB (sigDict q.2.1 q.2.2 q.1))
  | .struct | .protomsg | .msg => blockOKPB (Spec.elements m k) body
  | _ => blockOKB (Spec.elements m k) body

theorem bodyOKB_sound (m : Spec.Model) (k : Spec.Kind) (body : List Spec.BItem) (h : bodyOKB m k body = true) :
    BodyOK m k body := by
  cases k with
  | pasig =>
    simp only [bodyOKB, Bool.and_eq_true, List.all_eq_true] at h
    refine ⟨fun i hi => ?_, fun q hq => chainOKB_sound _ (h.2 q hq)⟩
    have := h.1 i hi
    cases i with
    | line l => simpa using this
    | blank t => simpa using this
  | struct => exact blockOKPB_sound _ _ h
  | protomsg => exact blockOKPB_sound _ _ h
  | msg => exact blockOKPB_sound _ _ h
  | ps => exact blockOKB_sound _ _ h
  | pe => exact blockOKB_sound _ _ h
  | pa => exact blockOKB_sound _ _ h
  | pg => exact blockOKB_sound _ _ h

def blockOKB' (m : Spec.Model) (p : Pass) : Spec.Item → Bool
  | .block k ws body => if p = .kind k then decide (Clean ws) && bodyOKB m k body else true
  | .pst ws body => if p = .pst then decide (Clean ws) && pstOKB m.table body else true
  | _ => true

theorem blockOKB'_sound (m : Spec.Model) (p : Pass) (it : Spec.Item) (h : blockOKB' m p it = true) : BlockOK m p it := by
  cases it with
  | block k ws body =>
    intro hp
    simp only [blockOKB', hp, if_true, Bool.and_eq_true, decide_eq_true_eq] at h
    exact ⟨h.1, bodyOKB_sound m k body h.2⟩
  | pst ws body =>
    intro hp
    simp only [blockOKB', hp, if_true, Bool.and_eq_true, decide_eq_true_eq] at h
    exact ⟨h.1, pstOKB_sound _ _ h.2⟩
  | b i => trivial
  | cond ws brs els => trivial
  | loop ws pr body => trivial

def itemPassOKB (m : Spec.Model) (p : Pass) (it : Spec.Item) : Bool :=
  chunkOKB p.sk p.ek (chunkFor p it) && blockOKB' m p it

theorem itemPassOKB_sound (m : Spec.Model) (p : Pass) (it : Spec.Item) (h : itemPassOKB m p it = true) : ItemPassOK m p it := by
  simp only [itemPassOKB, Bool.and_eq_true] at h
  exact ⟨chunkOKB_sound _ _ _ h.1, blockOKB'_sound m p it h.2⟩

def passesOKB (m : Spec.Model) : List Pass → List Spec.Item → Bool
  | [], _ => true
  | p :: ps, items => items.all (itemPassOKB m p) && passesOKB m ps (items.flatMap (passOut m p))

theorem passesOKB_sound (m : Spec.Model) (ps : List Pass) (items : List Spec.Item) (h : passesOKB m ps items = true) :
    PassesOK m ps items := by
  induction ps generalizing items with
  | nil => trivial
  | cons p ps ih =>
    simp only [passesOKB, Bool.and_eq_true, List.all_eq_true] at h
    exact ⟨fun it hit => itemPassOKB_sound m p it (h.1 it hit), ih _ h.2⟩

def bItemOKB (i : Spec.BItem) : Bool := decide (BItemOK i)

def itemOK0B (chain : List (Str × Str)) : Spec.Item → Bool
  | .b i => bItemOKB i
  | .block _ ws body => decide (Clean ws) && body.all bItemOKB
  | .pst ws body => decide (Clean ws) && body.all pstItemOK0B
  | .cond ws brs els => decide (Clean ws) && brs.all (fun br => decide (Clean br.1) && br.2.all bItemOKB) &&
      (match els with | some e => e.all bItemOKB | none => true)
  | .loop ws pr body => decide (Clean ws) && body.all bItemOKB &&
      (applySubst (toPat chain) (Spec.delim ws (T "FOR_BEGIN=" ++ pr.render)) == Spec.delim ws (T "FOR_BEGIN=" ++ pr.render))

theorem itemOK0B_sound (chain : List (Str × Str)) (it : Spec.Item) (h : itemOK0B chain it = true) : ItemOK0 chain it := by
  cases it with
  | b i => simpa [itemOK0B, bItemOKB, ItemOK0] using h
  | block k ws body => simpa [itemOK0B, bItemOKB, ItemOK0] using h
  | pst ws body =>
    simp only [itemOK0B, Bool.and_eq_true, decide_eq_true_eq, List.all_eq_true] at h
    exact ⟨h.1, fun q hq => pstItemOK0B_sound q (h.2 q hq)⟩
  | cond ws brs els =>
    simp only [itemOK0B, Bool.and_eq_true, decide_eq_true_eq, List.all_eq_true, bItemOKB] at h
    refine ⟨h.1.1, fun br hbr => h.1.2 br hbr, ?_⟩
    intro e he
    subst he
    have h2 := h.2
    simp only [List.all_eq_true, bItemOKB, decide_eq_true_eq] at h2
    exact h2
  | loop ws pr body =>
    simp only [itemOK0B, Bool.and_eq_true, decide_eq_true_eq, List.all_eq_true, bItemOKB, beq_iff_eq] at h
    exact ⟨h.1.1, h.1.2, h.2⟩

/-- a file is inside the domain of `expandSecond_items` -/
def secondOKB (m : Spec.Model) (items : List Spec.Item) : Bool :=
  !(Spec.renderFile items).any (fun l => hasTag l && tttKws.any (fun k => contains k l)) &&
  chainOKB (st0Keys m) && items.all (itemOK0B (st0Keys m)) &&
  passesOKB m passOrder (items.map (Spec.Item.subst (Spec.byDict (st0Keys m))))

theorem secondOKB_sound (m : Spec.Model) (items : List Spec.Item) (h : secondOKB m items = true) : SecondOK m items := by
  simp only [secondOKB, Bool.and_eq_true, Bool.not_eq_true', List.all_eq_true] at h
  exact ⟨h.1.1.1, chainOKB_sound _ h.1.1.2, fun it hit => itemOK0B_sound _ it (h.1.2 it hit), passesOKB_sound m _ _ h.2⟩

end Engine
end KojenVerif
