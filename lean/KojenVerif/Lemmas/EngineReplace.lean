import KojenVerif.Lemmas.EngineUser
/-
  `str.replace('<<<X>>>', v)` on a rendered line replaces exactly the tags named X.
-/
namespace KojenVerif
namespace Engine
open Str

/-- no '<' -/
def NoLt (s : Str) : Prop := ∀ c ∈ s, c ≠ 60

theorem Clean.noLt {s : Str} (h : Clean s) : NoLt s := fun c hc => (h c hc).1
theorem noLt_GGG : NoLt GGG := by intro c hc; simp [GGG] at hc; omega
theorem NoLt.append {a b : Str} (ha : NoLt a) (hb : NoLt b) : NoLt (a ++ b) := by
  intro c hc; rcases List.mem_append.1 hc with h | h
  · exact ha c h
  · exact hb c h

/-- the tag as written in a pattern -/
def tagPat (x : Str) : Str := LLL ++ x ++ GGG

theorem tagPat_ne_nil (x : Str) : tagPat x ≠ [] := by simp [tagPat, LLL]

theorem isPrefixB_tagPat_ne (x : Str) (c : Nat) (r : Str) (h : c ≠ 60) : isPrefixB (tagPat x) (c :: r) = false := by
  simp [tagPat, LLL, isPrefixB]; intro e; exact absurd e.symm h

theorem replaceAux_noLt (x rep s rest : Str) (h : NoLt s) :
    replaceAux (tagPat x) rep 0 (s ++ rest) = s ++ replaceAux (tagPat x) rep 0 rest := by
  induction s with
  | nil => rfl
  | cons c s ih =>
    have hc : c ≠ 60 := h c (by simp)
    have hs : NoLt s := fun d hd => h d (by simp [hd])
    simp only [List.cons_append, replaceAux, isPrefixB_tagPat_ne x c _ hc, Bool.false_eq_true, if_false]
    rw [ih hs]

theorem replaceAux_skip (pat rep : Str) (t rest : Str) :
    replaceAux pat rep t.length (t ++ rest) = replaceAux pat rep 0 rest := by
  induction t with
  | nil => rfl
  | cons c t ih => simp only [List.length_cons, List.cons_append, replaceAux]; exact ih

theorem isPrefixB_append_same (a p q : Str) : isPrefixB (a ++ p) (a ++ q) = isPrefixB p q := by
  induction a with
  | nil => rfl
  | cons c a ih => simp [isPrefixB, ih]

theorem isPrefixB_body (x b rest : Str) (hx : Clean x) (hb : Clean b) :
    isPrefixB (x ++ GGG) (b ++ GGG ++ rest) = decide (x = b) := by
  induction x generalizing b with
  | nil =>
    cases b with
    | nil => simp [GGG, isPrefixB]
    | cons d b =>
      have := (hb.cons).2.1
      simp [GGG, isPrefixB]; intro e; exact absurd e.symm this
  | cons c x ih =>
    obtain ⟨_, hc2, hx'⟩ := hx.cons
    cases b with
    | nil =>
      simp [GGG, isPrefixB]; intro e; exact absurd e hc2
    | cons d b =>
      obtain ⟨_, _, hb'⟩ := hb.cons
      simp only [List.cons_append, isPrefixB, ih b hx' hb']
      by_cases e : c = d
      · subst e; simp
      · simp [e]

theorem isPrefixB_tag (x b rest : Str) (hx : Clean x) (hb : Clean b) :
    isPrefixB (tagPat x) (LLL ++ b ++ GGG ++ rest) = decide (x = b) := by
  unfold tagPat
  have e1 : LLL ++ x ++ GGG = LLL ++ (x ++ GGG) := by simp
  have e2 : LLL ++ b ++ GGG ++ rest = LLL ++ (b ++ GGG ++ rest) := by simp
  rw [e1, e2, isPrefixB_append_same, isPrefixB_body x b rest hx hb]

/-- a tag with another body stays -/
theorem replaceAux_tag_ne (x rep b rest : Str) (hx : Clean x) (hb : Clean b) (hne : x ≠ b) :
    replaceAux (tagPat x) rep 0 (LLL ++ b ++ GGG ++ rest) = LLL ++ b ++ GGG ++ replaceAux (tagPat x) rep 0 rest := by
  have p0 : isPrefixB (tagPat x) (LLL ++ b ++ GGG ++ rest) = false := by
    rw [isPrefixB_tag x b rest hx hb]; simp [hne]
  have e1 : LLL ++ b ++ GGG ++ rest = 60 :: 60 :: 60 :: (b ++ GGG ++ rest) := by simp [LLL]
  rw [e1] at p0 ⊢
  -- at the second and third '<' the pattern's third '<' meets the body or a '>'
  have third : ∀ r, isPrefixB (tagPat x) (60 :: 60 :: (b ++ GGG ++ r)) = false := by
    intro r
    cases b with
    | nil => simp [tagPat, LLL, GGG, isPrefixB]
    | cons d b => simp [tagPat, LLL, isPrefixB]; intro e; exact absurd e.symm (hb.cons).1
  have second : ∀ r, isPrefixB (tagPat x) (60 :: (b ++ GGG ++ r)) = false := by
    intro r
    cases b with
    | nil => simp [tagPat, LLL, GGG, isPrefixB]
    | cons d b => simp [tagPat, LLL, isPrefixB]; intro e; exact absurd e.symm (hb.cons).1
  rw [replaceAux]; simp only [p0, Bool.false_eq_true, if_false]
  rw [replaceAux]; simp only [third, Bool.false_eq_true, if_false]
  rw [replaceAux]; simp only [second, Bool.false_eq_true, if_false]
  have e2 : b ++ GGG ++ rest = (b ++ GGG) ++ rest := by simp
  rw [e2, replaceAux_noLt x rep (b ++ GGG) rest (hb.noLt.append noLt_GGG)]
  simp [LLL]

/-- the tag itself is replaced -/
theorem replaceAux_tag_eq (x rep rest : Str) (hx : Clean x) :
    replaceAux (tagPat x) rep 0 (LLL ++ x ++ GGG ++ rest) = rep ++ replaceAux (tagPat x) rep 0 rest := by
  have p0 : isPrefixB (tagPat x) (LLL ++ x ++ GGG ++ rest) = true := by
    rw [isPrefixB_tag x x rest hx hx]; simp
  have e1 : LLL ++ x ++ GGG ++ rest = 60 :: ((60 :: 60 :: (x ++ GGG)) ++ rest) := by simp [LLL]
  rw [e1] at p0 ⊢
  rw [replaceAux]
  simp only [p0, if_true]
  have hl : (tagPat x).length - 1 = (60 :: 60 :: (x ++ GGG)).length := by simp [tagPat, LLL, GGG]
  rw [hl, replaceAux_skip]

/-- replace the tags named `x` (without default) by the literal `v` -/
def substOne (x v : Str) (l : Spec.SLine) : Spec.SLine :=
  l.map (fun s => match s with
    | .tag n none => if n = x then .lit v else s
    | _ => s)

theorem replaceAux_segs (x v : Str) (hx : Clean x) (hxe : NoEq x) (l : Spec.SLine) (h : LineOK l) (rest : Str) :
    replaceAux (tagPat x) v 0 (renderSegs l ++ rest) = renderSegs (substOne x v l) ++ replaceAux (tagPat x) v 0 rest := by
  induction l with
  | nil => simp [renderSegs, substOne]
  | cons s l ih =>
    have hs : SegOK s := h s (by simp)
    have hl : LineOK l := fun y hy => h y (by simp [hy])
    have e : renderSegs (s :: l) ++ rest = s.render ++ (renderSegs l ++ rest) := by simp [renderSegs]
    rw [e]
    cases s with
    | lit t =>
      simp only [Spec.Seg.render]
      rw [replaceAux_noLt x v t _ (Clean.noLt hs), ih hl]
      simp [substOne, renderSegs, Spec.Seg.render]
    | tag n d =>
      cases d with
      | none =>
        have hn : Clean n := hs
        by_cases hxn : x = n
        · subst hxn
          have := replaceAux_tag_eq x v (renderSegs l ++ rest) hx
          simp only [Spec.Seg.render, List.append_assoc] at this ⊢
          rw [this, ih hl]
          simp [substOne, renderSegs, Spec.Seg.render]
        · have := replaceAux_tag_ne x v n (renderSegs l ++ rest) hx hn hxn
          simp only [Spec.Seg.render, List.append_assoc] at this ⊢
          rw [this, ih hl]
          have hnx : ¬ n = x := fun e => hxn e.symm
          simp [substOne, renderSegs, Spec.Seg.render, hnx]
      | some d =>
        have hc : Clean (n ++ [61] ++ d) := (hs.1.append clean_eq).append hs.2
        have hne : x ≠ n ++ [61] ++ d := by
          intro e
          have : (61 : Nat) ∈ x := by rw [e]; simp
          exact hxe 61 this rfl
        have := replaceAux_tag_ne x v (n ++ [61] ++ d) (renderSegs l ++ rest) hx hc hne
        simp only [Spec.Seg.render, List.append_assoc] at this ⊢
        rw [this, ih hl]
        simp [substOne, renderSegs, Spec.Seg.render]

/-- **`line.replace('<<<X>>>', v)` on a rendered line** -/
theorem pyReplace_renderLine (x v : Str) (hx : Clean x) (hxe : NoEq x) (l : Spec.SLine) (h : LineOK l) :
    pyReplace (tagPat x) v (Spec.renderLine l) = Spec.renderLine (substOne x v l) := by
  unfold pyReplace
  have hne : (tagPat x).isEmpty = false := by simp [tagPat, LLL]
  simp only [hne, Bool.false_eq_true, if_false]
  rw [renderLine_eq, replaceAux_segs x v hx hxe l h [NL], renderLine_eq]
  have : replaceAux (tagPat x) v 0 [NL] = [NL] := by
    simp [replaceAux, tagPat, LLL, isPrefixB, NL]
  rw [this]

theorem substOne_ok (x v : Str) (hv : Clean v) (l : Spec.SLine) (h : LineOK l) : LineOK (substOne x v l) := by
  intro s hs
  simp only [substOne, List.mem_map] at hs
  obtain ⟨s0, hs0, e⟩ := hs
  have h0 := h s0 hs0
  cases s0 with
  | lit t => subst e; exact h0
  | tag n d =>
    cases d with
    | none =>
      by_cases hn : n = x
      · simp [hn] at e; subst e; exact hv
      · simp [hn] at e; subst e; exact h0
    | some d => simp at e; subst e; exact h0

/-- a chain of such replacements = one simultaneous substitution (first entry for a name wins;
    the values are literals, so later entries cannot see them) -/
def substChain (chain : List (Str × Str)) (l : Spec.SLine) : Spec.SLine :=
  chain.foldl (fun acc kv => substOne kv.1 kv.2 acc) l

theorem substChain_eq (chain : List (Str × Str)) (l : Spec.SLine) :
    substChain chain l = Spec.substLine (Spec.byDict chain) l := by
  induction chain generalizing l with
  | nil =>
    simp only [substChain, List.foldl_nil, Spec.substLine]
    conv => lhs; rw [← List.map_id l]
    apply List.map_congr_left
    intro s _
    cases s with
    | lit t => rfl
    | tag n d => cases d <;> simp [Spec.byDict, Spec.lookupS]
  | cons kv chain ih =>
    simp only [substChain, List.foldl_cons]
    have := ih (substOne kv.1 kv.2 l)
    simp only [substChain] at this
    rw [this]
    simp only [Spec.substLine, substOne, List.map_map]
    apply List.map_congr_left
    intro s _
    cases s with
    | lit t => rfl
    | tag n d =>
      cases d with
      | some d => simp [Spec.byDict]
      | none =>
        by_cases hn : n = kv.1
        · subst hn; simp [Spec.byDict, Spec.lookupS]
        · have hn' : ¬ kv.1 = n := fun e => hn e.symm
          simp [Spec.byDict, Spec.lookupS, hn, hn']

end Engine
end KojenVerif
