import KojenVerif.Lemmas.Regen
import KojenVerif.Basic.Path
/-
  What goes to LostCode (abstract), and where an absolute LostCode name lands (paths).
-/
namespace KojenVerif
section
variable {L K : Type} [DecidableEq K]

theorem Tags.set_of_not_mem (t : Tags L K) (k : K) (b : List L) (h : k ∉ Tags.keys t) :
    Tags.set t k b = t ++ [(k, b)] := by
  induction t with
  | nil => rfl
  | cons p t ih =>
    obtain ⟨k0, b0⟩ := p
    simp only [Tags.keys, List.map_cons, List.mem_cons, not_or] at h
    have h0 : ¬ k0 = k := fun e => h.1 e.symm
    simp only [Tags.keys] at ih
    simp [Tags.set, h0, ih h.2]

theorem Tags.foldl_set_nodup (kbs acc : Tags L K) (hnd : (Tags.keys kbs).Nodup)
    (hdis : ∀ k ∈ Tags.keys kbs, k ∉ Tags.keys acc) :
    kbs.foldl (fun (a : Tags L K) kb => Tags.set a kb.1 kb.2) acc = acc ++ kbs := by
  induction kbs generalizing acc with
  | nil => simp
  | cons p kbs ih =>
    obtain ⟨k0, b0⟩ := p
    simp only [Tags.keys, List.map_cons, List.nodup_cons] at hnd
    simp only [List.foldl_cons]
    rw [Tags.set_of_not_mem acc k0 b0 (hdis k0 (by simp [Tags.keys]))]
    rw [ih _ hnd.2]
    · simp
    · intro k hk
      simp only [Tags.keys, List.map_append, List.map_cons, List.map_nil, List.mem_append,
        List.mem_singleton, not_or]
      refine ⟨hdis k (by simp only [Tags.keys] at hk ⊢; simp [hk]), ?_⟩
      intro e
      subst e
      exact hnd.1 hk

/-- with pairwise distinct tag keys the collected table *is* the block list, in file order -/
theorem collect_eq_blocksOf (c : Cfg L K) (D : List (Item L)) (h : ∀ it ∈ D, it.okOld c)
    (hnd : (Tags.keys (blocksOf c D)).Nodup) :
    collect c (render D) = blocksOf c D := by
  rw [collect_render c D h, Tags.foldl_set_nodup _ _ hnd (by simp [Tags.keys])]
  simp

theorem Tags.filter_map_body (t : Tags L K) (B : K → List L) (P : K → List L → Bool) :
    (t.map (fun kb => (kb.1, B kb.1))).filter (fun kb => P kb.1 kb.2)
      = ((Tags.keys t).filter (fun k => P k (B k))).map (fun k => (k, B k)) := by
  induction t with
  | nil => rfl
  | cons p t ih =>
    obtain ⟨k0, b0⟩ := p
    simp only [Tags.keys] at ih
    simp only [List.map_cons, List.filter_cons, Tags.keys]
    split <;> simp [ih]

variable (c : Cfg L K) (norm : L → L)

/-- **What is lost.** Old file generated from `F₀` with bodies `B`, new expansion `F₁`: the
    LostCode entries are exactly the tags of the old file, in file order, that the new file
    no longer has and whose body is non-empty — each with its complete body. -/
theorem lost_onDisk (hn : NormOK c norm) (B : K → List L) (hB : UserOK c B)
    (F₀ F₁ : List (Item L)) (hF₀ : FreshDoc c norm F₀) (hF₁ : FreshDoc c norm F₁) :
    lostEntries (collect c (render (onDisk c norm B F₀)))
        (used c (collect c (render (onDisk c norm B F₀))) (render F₁))
      = ((blockKeys c F₀).filter (fun k => !(decide (k ∈ blockKeys c F₁)) && !(B k).isEmpty)).map
          (fun k => (k, B k)) := by
  have hb := blocksOf_onDisk c norm B F₀ hF₀.items
  have hnd : (Tags.keys (blocksOf c (onDisk c norm B F₀))).Nodup := by
    rw [hb, Tags.keys_map_body]; exact hF₀.nodup
  have hcol := collect_eq_blocksOf c _ (okOld_onDisk c norm hn B hB F₀ hF₀.items) hnd
  have hget := collect_onDisk_get? c norm hn B hB F₀ hF₀
  have hnew := okNew_fresh c norm (collect c (render (onDisk c norm B F₀))) F₁ hF₁.items
  rw [used_render c _ F₁ hnew]
  -- the set of used keys, characterised
  have hU : ∀ k, k ∈ blockKeys c F₀ →
      (knownBlockKeys c (collect c (render (onDisk c norm B F₀))) F₁).contains k = decide (k ∈ blockKeys c F₁) := by
    intro k hk0
    have hgk := hget k
    simp only [hk0, if_true] at hgk
    by_cases h1 : k ∈ blockKeys c F₁
    · have : k ∈ knownBlockKeys c (collect c (render (onDisk c norm B F₀))) F₁ := by
        simp only [knownBlockKeys, List.mem_filter]
        exact ⟨h1, by rw [hgk]; rfl⟩
      simp [this, h1]
    · have : k ∉ knownBlockKeys c (collect c (render (onDisk c norm B F₀))) F₁ := by
        simp only [knownBlockKeys, List.mem_filter]
        intro h; exact h1 h.1
      simp [this, h1]
  generalize knownBlockKeys c (collect c (render (onDisk c norm B F₀))) F₁ = U at hU ⊢
  unfold lostEntries
  rw [hcol, hb]
  rw [Tags.filter_map_body (blocksOf c F₀) B (fun k b => !(U.contains k) && !b.isEmpty)]
  congr 1
  apply List.filter_congr
  intro k hk
  rw [hU k hk]

end

namespace Path
open Str

theorem isAbs_append (a b : Str) (h : isAbs a = true) : isAbs (a ++ b) = true := by
  cases a with
  | nil => simp [isAbs] at h
  | cons x xs => simpa [isAbs] using h

theorem isAbs_normpath (p : Str) (h : isAbs p = true) : isAbs (normpath p) = true := by
  unfold normpath
  have hne : p.isEmpty = false := by
    cases p with
    | nil => simp [isAbs] at h
    | cons x xs => rfl
  simp only [hne, Bool.false_eq_true, if_false]
  have hn : initialSlashes p = 1 ∨ initialSlashes p = 2 := by
    unfold initialSlashes
    simp only [h, Bool.not_true, Bool.false_eq_true, if_false]
    split <;> simp
  rcases hn with hn | hn <;> simp [hn, List.replicate, isAbs]

theorem isAbs_join_left (a b : Str) (ha : isAbs a = true) : isAbs (join a b) = true := by
  unfold join
  split
  · assumption
  · split
    · exact isAbs_append a b ha
    · exact isAbs_append a (SEP :: b) ha

/-- with an absolute working directory `abspath` is absolute -/
theorem isAbs_abspath (cwd p : Str) (hc : isAbs cwd = true) : isAbs (abspath cwd p) = true := by
  unfold abspath
  apply isAbs_normpath
  split
  · assumption
  · exact isAbs_join_left cwd p hc

/-- joining an absolute name onto any directory leaves it where it is -/
theorem join_abs (a b : Str) (hb : isAbs b = true) : join a b = b := by
  simp [join, hb]

end Path
end KojenVerif
