import KojenVerif.Lemmas.EngineWF
import KojenVerif.Lemmas.EngineNested
/-
  Executable versions of the hypotheses of the nested transition expansion theorems.
-/
namespace KojenVerif
namespace Engine
open Str

def petItemOK0B : Spec.PetItem → Bool
  | .b i => decide (BItemOK i)
  | .pgt ws body => decide (Clean ws) && body.all (fun i => decide (BItemOK i))

theorem petItemOK0B_sound (it : Spec.PetItem) (h : petItemOK0B it = true) : PetItemOK0 it := by
  cases it with
  | b i => simpa [petItemOK0B, PetItemOK0] using h
  | pgt ws body => simpa [petItemOK0B, PetItemOK0] using h

def petItemOKB (t : List Table.Row) (s e : Str) (it : Spec.PetItem) : Bool :=
  chunkOKB PGTB PGTE (petChunk it) &&
  match it with
  | .b _ => true
  | .pgt ws b => decide (Clean ws) && (Table.rowsFor t s e).all (fun r => b.all (pgtItemOKB (Spec.transTags r)))

theorem petItemOKB_sound (t : List Table.Row) (s e : Str) (it : Spec.PetItem) (h : petItemOKB t s e it = true) :
    PetItemOK t s e it := by
  unfold petItemOKB at h
  simp only [Bool.and_eq_true] at h
  refine ⟨chunkOKB_sound _ _ _ h.1, ?_⟩
  cases it with
  | b i => trivial
  | pgt ws b =>
    have h2 := h.2
    simp only [Bool.and_eq_true, decide_eq_true_eq, List.all_eq_true] at h2
    exact ⟨h2.1, fun r hr i hi => pgtItemOKB_sound _ i (h2.2 r hr i hi)⟩

def evTags (e : Str) : List (Str × Str) := Spec.caseTags "EVENTNAME" "eventName" "EVENT_NAME" e
def stTags (s : Str) : List (Str × Str) := Spec.caseTags "STATENAME" "stateName" "STATE_NAME" s

def petOKB (t : List Table.Row) (s : Str) (body : List Spec.PetItem) : Bool :=
  body.all petItemOK0B &&
  (Table.eventsOf t s).all (fun e =>
    chainOKB (evKeys e) && (Table.rowsFor t s e).all rowOKB &&
    body.all (fun it => petItemOKB t s e (it.subst (Spec.byDict (evTags e)))))

theorem petOKB_sound (t : List Table.Row) (s : Str) (body : List Spec.PetItem) (h : petOKB t s body = true) :
    PetOK t s body := by
  unfold petOKB at h
  simp only [Bool.and_eq_true, List.all_eq_true] at h
  obtain ⟨h0, h1⟩ := h
  exact ⟨fun it hit => petItemOK0B_sound it (h0 it hit),
    fun e he => chainOKB_sound _ (h1 e he).1.1,
    fun e he r hr => rowOKB_sound r ((h1 e he).1.2 r hr),
    fun e he it hit => petItemOKB_sound t s e _ ((h1 e he).2 it hit)⟩

def pstItemOK0B : Spec.PstItem → Bool
  | .b i => decide (BItemOK i)
  | .pet ws pb => decide (Clean ws) && pb.all petItemOK0B

theorem pstItemOK0B_sound (it : Spec.PstItem) (h : pstItemOK0B it = true) : PstItemOK0 it := by
  cases it with
  | b i => simpa [pstItemOK0B, PstItemOK0] using h
  | pet ws pb =>
    simp only [pstItemOK0B, Bool.and_eq_true, decide_eq_true_eq, List.all_eq_true] at h
    exact ⟨h.1, fun p hp => petItemOK0B_sound p (h.2 p hp)⟩

def pstItemOKB (t : List Table.Row) (s : Str) (it : Spec.PstItem) : Bool :=
  chunkOKB PETB PETE (pstChunk it) &&
  match it with
  | .b _ => true
  | .pet ws pb => decide (Clean ws) && petOKB t s pb

theorem pstItemOKB_sound (t : List Table.Row) (s : Str) (it : Spec.PstItem) (h : pstItemOKB t s it = true) :
    PstItemOK t s it := by
  unfold pstItemOKB at h
  simp only [Bool.and_eq_true] at h
  refine ⟨chunkOKB_sound _ _ _ h.1, ?_⟩
  cases it with
  | b i => trivial
  | pet ws pb =>
    have h2 := h.2
    simp only [Bool.and_eq_true, decide_eq_true_eq] at h2
    exact ⟨h2.1, petOKB_sound t s pb h2.2⟩

/-- a per-state-transition block is inside the domain of `pstExpand_eq` -/
def pstOKB (t : List Table.Row) (body : List Spec.PstItem) : Bool :=
  body.all pstItemOK0B &&
  (Table.perStateKeys t).all (fun s =>
    chainOKB (stKeys s) && body.all (fun it => pstItemOKB t s (it.subst (Spec.byDict (stTags s)))))

theorem pstOKB_sound (t : List Table.Row) (body : List Spec.PstItem) (h : pstOKB t body = true) : PstOK t body := by
  unfold pstOKB at h
  simp only [Bool.and_eq_true, List.all_eq_true] at h
  obtain ⟨h0, h1⟩ := h
  exact ⟨fun it hit => pstItemOK0B_sound it (h0 it hit),
    fun s hs => chainOKB_sound _ (h1 s hs).1,
    fun s hs it hit => pstItemOKB_sound t s _ ((h1 s hs).2 it hit)⟩

end Engine
end KojenVerif
