import KojenVerif.Model.EngineSpec
/-
  String-level facts about tag-structured text: what the engine's scanners and `str.replace`
  do on a line that is a concatenation of angle-free literals and `<<<body>>>` tags.
-/
namespace KojenVerif
namespace Engine
open Str

/-- no '<' and no '>' -/
def Clean (s : Str) : Prop := ∀ c ∈ s, c ≠ 60 ∧ c ≠ 62

instance (s : Str) : Decidable (Clean s) := by unfold Clean; exact inferInstance

theorem Clean.nil : Clean [] := by intro c h; cases h
theorem Clean.cons {c : Nat} {s : Str} (h : Clean (c :: s)) : c ≠ 60 ∧ c ≠ 62 ∧ Clean s :=
  ⟨(h c (by simp)).1, (h c (by simp)).2, fun d hd => h d (by simp [hd])⟩
theorem Clean.append {a b : Str} (ha : Clean a) (hb : Clean b) : Clean (a ++ b) := by
  intro c hc; rcases List.mem_append.1 hc with h | h
  · exact ha c h
  · exact hb c h
theorem Clean.of_cons {c : Nat} {s : Str} (h1 : c ≠ 60) (h2 : c ≠ 62) (h : Clean s) : Clean (c :: s) := by
  intro d hd; rcases List.mem_cons.1 hd with e | e
  · subst e; exact ⟨h1, h2⟩
  · exact h d e

/-! ### the tag scanner -/

theorem scanStep_lt0_clean (c : Nat) (h1 : c ≠ 60) (h2 : c ≠ 62) : scanStep (.lt 0) c = (.lt 0, none) := by
  simp [scanStep, LTc, h1]

theorem tagBodiesAux_clean (s rest : Str) (h : Clean s) :
    tagBodiesAux (.lt 0) (s ++ rest) = tagBodiesAux (.lt 0) rest := by
  induction s with
  | nil => rfl
  | cons c s ih =>
    obtain ⟨h1, h2, hs⟩ := h.cons
    simp only [List.cons_append, tagBodiesAux, scanStep_lt0_clean c h1 h2]
    exact ih hs

theorem tagBodiesAux_body (buf b rest : Str) (h : Clean b) :
    tagBodiesAux (.body buf) (b ++ GGG ++ rest) = (buf.reverse ++ b) :: tagBodiesAux (.lt 0) rest := by
  induction b generalizing buf with
  | nil =>
    simp [GGG, tagBodiesAux, scanStep, LTc, GTc]
  | cons c b ih =>
    obtain ⟨h1, h2, hb⟩ := h.cons
    simp only [List.cons_append, tagBodiesAux, scanStep, LTc, GTc]
    simp only [beq_iff_eq, h1, h2, if_false]
    rw [ih (c :: buf) hb]
    simp

/-- one tag -/
theorem tagBodiesAux_tag (b rest : Str) (h : Clean b) :
    tagBodiesAux (.lt 0) (LLL ++ b ++ GGG ++ rest) = b :: tagBodiesAux (.lt 0) rest := by
  cases b with
  | nil => simp [LLL, GGG, tagBodiesAux, scanStep, LTc, GTc]
  | cons c b =>
    obtain ⟨h1, h2, hb⟩ := h.cons
    have : tagBodiesAux (.lt 0) (LLL ++ (c :: b) ++ GGG ++ rest) = tagBodiesAux (.body [c]) (b ++ GGG ++ rest) := by
      simp only [LLL, List.cons_append, List.nil_append, tagBodiesAux, scanStep, LTc, GTc]
      simp [h1, h2]
    rw [this, tagBodiesAux_body [c] b rest hb]
    simp

/-! ### rendered token lines -/

def SegOK : Spec.Seg → Prop
  | .lit s => Clean s
  | .tag n none => Clean n
  | .tag n (some d) => Clean n ∧ Clean d

instance : (s : Spec.Seg) → Decidable (SegOK s)
  | .lit s => by unfold SegOK; exact inferInstance
  | .tag n none => by unfold SegOK; exact inferInstance
  | .tag n (some d) => by unfold SegOK; exact inferInstance

def LineOK (l : Spec.SLine) : Prop := ∀ s ∈ l, SegOK s

instance (l : Spec.SLine) : Decidable (LineOK l) := by unfold LineOK; exact inferInstance

/-- the text between the brackets -/
def segBody : Spec.Seg → Option Str
  | .lit _ => none
  | .tag n none => some n
  | .tag n (some d) => some (n ++ [61] ++ d)

def renderSegs (l : Spec.SLine) : Str := (l.map Spec.Seg.render).flatten

theorem renderLine_eq (l : Spec.SLine) : Spec.renderLine l = renderSegs l ++ [NL] := rfl

theorem clean_eq : Clean [61] := by decide
theorem clean_nl : Clean [NL] := by decide

theorem tagBodiesAux_segs (l : Spec.SLine) (h : LineOK l) (rest : Str) :
    tagBodiesAux (.lt 0) (renderSegs l ++ rest) = l.filterMap segBody ++ tagBodiesAux (.lt 0) rest := by
  induction l with
  | nil => simp [renderSegs]
  | cons s l ih =>
    have hs : SegOK s := h s (by simp)
    have hl : LineOK l := fun x hx => h x (by simp [hx])
    have e : renderSegs (s :: l) ++ rest = s.render ++ (renderSegs l ++ rest) := by simp [renderSegs]
    rw [e]
    cases s with
    | lit t =>
      simp only [Spec.Seg.render, List.filterMap_cons, segBody]
      rw [tagBodiesAux_clean t _ hs]; exact ih hl
    | tag n d =>
      cases d with
      | none =>
        simp only [Spec.Seg.render, List.filterMap_cons, segBody]
        have := tagBodiesAux_tag n (renderSegs l ++ rest) hs
        simp only [List.append_assoc] at this ⊢
        rw [this, ih hl]; simp
      | some d =>
        simp only [Spec.Seg.render, List.filterMap_cons, segBody]
        have hc : Clean (n ++ [61] ++ d) := (hs.1.append clean_eq).append hs.2
        have := tagBodiesAux_tag (n ++ [61] ++ d) (renderSegs l ++ rest) hc
        simp only [List.append_assoc] at this ⊢
        rw [this, ih hl]; simp

/-- **what `re.findall` sees on a rendered line**: exactly the tags, in order -/
theorem tagBodies_renderLine (l : Spec.SLine) (h : LineOK l) :
    tagBodies (Spec.renderLine l) = l.filterMap segBody := by
  unfold tagBodies
  rw [renderLine_eq, tagBodiesAux_segs l h [NL]]
  simp [tagBodiesAux, scanStep, NL, LTc]

/-! ### `tag_pattern.sub` -/

theorem subTagsAux_clean (f : Str → Option Str) (s rest : Str) (h : Clean s) :
    subTagsAux f (.lt 0) [] (s ++ rest) = s ++ subTagsAux f (.lt 0) [] rest := by
  induction s with
  | nil => rfl
  | cons c s ih =>
    obtain ⟨h1, h2, hs⟩ := h.cons
    simp only [List.cons_append, subTagsAux, scanStep_lt0_clean c h1 h2]
    simp [ih hs]

theorem subTagsAux_body (f : Str → Option Str) (buf pend b rest : Str) (h : Clean b) :
    subTagsAux f (.body buf) pend (b ++ GGG ++ rest) =
      (match f (buf.reverse ++ b) with
       | some v => v
       | none => pend.reverse ++ b ++ GGG) ++ subTagsAux f (.lt 0) [] rest := by
  induction b generalizing buf pend with
  | nil =>
    simp only [GGG, List.nil_append, List.cons_append, subTagsAux, scanStep, LTc, GTc]
    simp only [beq_iff_eq, show (62 : Nat) ≠ 60 by decide, if_false, if_true, List.append_nil]
    cases hf : f buf.reverse <;> simp [hf]
  | cons c b ih =>
    obtain ⟨h1, h2, hb⟩ := h.cons
    simp only [List.cons_append, subTagsAux, scanStep, LTc, GTc]
    simp only [beq_iff_eq, h1, h2, if_false]
    rw [ih (c :: buf) (c :: pend) hb]
    simp

theorem subTagsAux_tag (f : Str → Option Str) (b rest : Str) (h : Clean b) :
    subTagsAux f (.lt 0) [] (LLL ++ b ++ GGG ++ rest) =
      (match f b with | some v => v | none => LLL ++ b ++ GGG) ++ subTagsAux f (.lt 0) [] rest := by
  cases b with
  | nil =>
    simp only [LLL, GGG, List.nil_append, List.cons_append, List.append_nil, subTagsAux, scanStep, LTc, GTc]
    simp
    cases hf : f [] <;> simp [hf]
  | cons c b =>
    obtain ⟨h1, h2, hb⟩ := h.cons
    have : subTagsAux f (.lt 0) [] (LLL ++ (c :: b) ++ GGG ++ rest) = subTagsAux f (.body [c]) [c, 60, 60, 60] (b ++ GGG ++ rest) := by
      simp only [LLL, List.cons_append, List.nil_append, subTagsAux, scanStep, LTc, GTc]
      simp [h1, h2]
    rw [this, subTagsAux_body f [c] [c, 60, 60, 60] b rest hb]
    simp [LLL]

/-- substitution of whole tags, token level -/
def substBodies (f : Str → Option Str) (l : Spec.SLine) : Spec.SLine :=
  l.map (fun s => match segBody s with
    | some b => (match f b with | some v => .lit v | none => s)
    | none => s)

theorem subTagsAux_segs (f : Str → Option Str) (l : Spec.SLine) (h : LineOK l) (rest : Str) :
    subTagsAux f (.lt 0) [] (renderSegs l ++ rest) = renderSegs (substBodies f l) ++ subTagsAux f (.lt 0) [] rest := by
  induction l with
  | nil => simp [renderSegs, substBodies]
  | cons s l ih =>
    have hs : SegOK s := h s (by simp)
    have hl : LineOK l := fun x hx => h x (by simp [hx])
    have e : renderSegs (s :: l) ++ rest = s.render ++ (renderSegs l ++ rest) := by simp [renderSegs]
    have e' : ∀ s', renderSegs (s' :: substBodies f l) = s'.render ++ renderSegs (substBodies f l) := by
      intro s'; simp [renderSegs]
    rw [e]
    cases s with
    | lit t =>
      simp only [Spec.Seg.render]
      rw [subTagsAux_clean f t _ hs, ih hl]
      simp [substBodies, segBody, renderSegs, Spec.Seg.render]
    | tag n d =>
      cases d with
      | none =>
        have := subTagsAux_tag f n (renderSegs l ++ rest) hs
        simp only [Spec.Seg.render, List.append_assoc] at this ⊢
        rw [this, ih hl]
        simp only [substBodies, List.map_cons, segBody]
        cases hf : f n <;> simp [renderSegs, Spec.Seg.render, hf]
      | some d =>
        have hc : Clean (n ++ [61] ++ d) := (hs.1.append clean_eq).append hs.2
        have := subTagsAux_tag f (n ++ [61] ++ d) (renderSegs l ++ rest) hc
        simp only [Spec.Seg.render, List.append_assoc] at this ⊢
        rw [this, ih hl]
        simp only [substBodies, List.map_cons, segBody, List.append_assoc]
        cases hf : f (n ++ ([61] ++ d)) <;> simp [renderSegs, Spec.Seg.render, hf]

theorem subTags_renderLine (f : Str → Option Str) (l : Spec.SLine) (h : LineOK l) :
    subTags f (Spec.renderLine l) = Spec.renderLine (substBodies f l) := by
  unfold subTags
  rw [renderLine_eq, subTagsAux_segs f l h [NL], renderLine_eq]
  simp [subTagsAux, scanStep, NL, LTc]

end Engine
end KojenVerif
