import KojenVerif.Model.OutStage
import KojenVerif.Lemmas.Pipeline
/-
  Per-file atomicity of the output stage: after any prefix of the I/O script every path
  that is not one of the stage's own temporary names holds its old content or the complete
  new content.
-/
namespace KojenVerif
open Str

theorem FS.get?_erase (fs : FS) (t p : Str) :
    ODict.get? (FS.erase fs t) p = if t = p then none else ODict.get? fs p := by
  induction fs with
  | nil => simp [FS.erase, ODict.get?]
  | cons kv fs ih =>
    obtain ⟨k, v⟩ := kv
    by_cases hk : k = t
    · subst hk
      by_cases hp : k = p
      · subst hp; simpa [FS.erase] using ih
      · simp [FS.erase, ODict.get?, hp, ih]
    · by_cases hp : k = p
      · subst hp
        have : ¬ t = k := fun e => hk e.symm
        simp [FS.erase, ODict.get?, hk, this]
      · simp [FS.erase, ODict.get?, hk, hp, ih]

/-- the file an operation other than `replace` may modify -/
def Op.tmpOf : Op → Option Str
  | .openTmp t => some t
  | .write t _ => some t
  | .close t => some t
  | .copymode _ t => some t
  | .replace t _ => some t
  | .mkdirs _ => none

def Op.isReplace : Op → Bool
  | .replace _ _ => true
  | _ => false

theorem Op.exec_get?_other (fs : FS) (op : Op) (q : Str) (hr : op.isReplace = false)
    (hq : ∀ t, op.tmpOf = some t → t ≠ q) : ODict.get? (op.exec fs) q = ODict.get? fs q := by
  cases op with
  | mkdirs d => rfl
  | openTmp t =>
    have := hq t rfl
    simp [Op.exec, ODict.get?_set, this]
  | write t s =>
    have := hq t rfl
    simp [Op.exec, ODict.get?_set, this]
  | close t => rfl
  | copymode p t => rfl
  | replace t p => simp [Op.isReplace] at hr

theorem execOps_get?_other (ops : List Op) (fs : FS) (q : Str)
    (hr : ∀ op ∈ ops, op.isReplace = false) (hq : ∀ op ∈ ops, ∀ t, op.tmpOf = some t → t ≠ q) :
    ODict.get? (execOps ops fs) q = ODict.get? fs q := by
  induction ops generalizing fs with
  | nil => rfl
  | cons op ops ih =>
    simp only [execOps, List.foldl_cons]
    have := ih (op.exec fs) (fun o ho => hr o (by simp [ho])) (fun o ho => hq o (by simp [ho]))
    simp only [execOps] at this
    rw [this]
    exact Op.exec_get?_other fs op q (hr op (by simp)) (hq op (by simp))

/-- after `openTmp t` and the writes, `t` holds the complete output content -/
theorem execOps_writes (t : Str) (lines : List Str) (fs : FS) (prev : Str)
    (h : ODict.get? fs t = some prev) :
    ODict.get? (execOps (lines.map (fun l => Op.write t (expandTabs l))) fs) t
      = some (prev ++ outputContent lines) := by
  induction lines generalizing fs prev with
  | nil => simp [execOps, outputContent, h]
  | cons l lines ih =>
    simp only [List.map_cons, execOps, List.foldl_cons]
    have h' : ODict.get? (Op.exec fs (Op.write t (expandTabs l))) t = some (prev ++ expandTabs l) := by
      simp [Op.exec, ODict.get?_set, h]
    have := ih _ _ h'
    simp only [execOps] at this
    rw [this]
    simp [outputContent, List.append_assoc]

theorem ne_append_suffix (p : Str) : p ≠ p ++ tmpSuffix := by
  intro h
  have := congrArg List.length h
  simp [tmpSuffix, ofString] at this

/-- ops of one entry except the final rename -/
def entryPre (p : Str) (lines : List Str) : List Op :=
  let t := p ++ tmpSuffix
  [Op.mkdirs (Path.dirname p), Op.openTmp t] ++ (lines.map (fun l => Op.write t (expandTabs l)))
    ++ [Op.close t, Op.copymode p t]

theorem entryOps_eq (p : Str) (lines : List Str) :
    entryOps p lines = entryPre p lines ++ [Op.replace (p ++ tmpSuffix) p] := by
  simp [entryOps, entryPre, List.append_assoc]

theorem entryPre_noReplace (p : Str) (lines : List Str) : ∀ op ∈ entryPre p lines, op.isReplace = false := by
  intro op hop
  simp only [entryPre, List.mem_append, List.mem_cons, List.mem_map, List.not_mem_nil, or_false] at hop
  rcases hop with ((h | h) | ⟨l, _, h⟩) | (h | h) <;> (subst h; rfl)

theorem entryPre_tmp (p : Str) (lines : List Str) :
    ∀ op ∈ entryPre p lines, ∀ t, op.tmpOf = some t → t = p ++ tmpSuffix := by
  intro op hop t ht
  simp only [entryPre, List.mem_append, List.mem_cons, List.mem_map, List.not_mem_nil, or_false] at hop
  rcases hop with ((h | h) | ⟨l, _, h⟩) | (h | h) <;> (subst h; simp [Op.tmpOf] at ht; try exact ht.symm)

/-- any prefix of an entry that stops before the rename leaves every other path alone -/
theorem entryPre_take_get? (p : Str) (lines : List Str) (k : Nat) (fs : FS) (q : Str)
    (hq : q ≠ p ++ tmpSuffix) :
    ODict.get? (execOps ((entryPre p lines).take k) fs) q = ODict.get? fs q := by
  apply execOps_get?_other
  · intro op hop; exact entryPre_noReplace p lines op (List.mem_of_mem_take hop)
  · intro op hop t ht e
    have := entryPre_tmp p lines op (List.mem_of_mem_take hop) t ht
    exact hq (e ▸ this)

theorem execOps_append (a b : List Op) (fs : FS) : execOps (a ++ b) fs = execOps b (execOps a fs) := by
  simp [execOps, List.foldl_append]

/-- the complete entry: target holds the new content, its temporary is gone, rest unchanged -/
theorem entryOps_get? (p : Str) (lines : List Str) (fs : FS) (q : Str) (hq : q ≠ p ++ tmpSuffix) :
    ODict.get? (execOps (entryOps p lines) fs) q
      = if q = p then some (outputContent lines) else ODict.get? fs q := by
  rw [entryOps_eq, execOps_append]
  -- content of the temporary after the pre-ops
  have htmp : ODict.get? (execOps (entryPre p lines) fs) (p ++ tmpSuffix) = some (outputContent lines) := by
    have e : entryPre p lines = [Op.mkdirs (Path.dirname p), Op.openTmp (p ++ tmpSuffix)]
        ++ ((lines.map (fun l => Op.write (p ++ tmpSuffix) (expandTabs l)))
        ++ [Op.close (p ++ tmpSuffix), Op.copymode p (p ++ tmpSuffix)]) := by
      simp [entryPre, List.append_assoc]
    rw [e, execOps_append, execOps_append]
    have h0 : ODict.get? (execOps [Op.mkdirs (Path.dirname p), Op.openTmp (p ++ tmpSuffix)] fs) (p ++ tmpSuffix) = some [] := by
      simp [execOps, Op.exec, ODict.get?_set]
    have := execOps_writes (p ++ tmpSuffix) lines _ [] h0
    simp only [List.nil_append] at this
    simp [execOps, Op.exec, this] at this ⊢
  have hpre := entryPre_take_get? p lines (entryPre p lines).length fs q hq
  rw [List.take_length] at hpre
  simp only [execOps, List.foldl_cons, List.foldl_nil, Op.exec]
  simp only [execOps] at htmp hpre
  rw [htmp]
  simp only
  rw [FS.get?_erase, ODict.get?_set]
  have hq' : ¬ p ++ tmpSuffix = q := fun e => hq e.symm
  simp only [hq', if_false]
  by_cases hqp : q = p
  · subst hqp; simp
  · have : ¬ p = q := fun e => hqp e.symm
    simp [hqp, this, hpre]

/-- `p` is old-or-new with respect to the start state `fs₀` and the whole code model `all` -/
def SafeAt (outdir : Str) (all : CodeModel) (fs₀ fs : FS) (q : Str) : Prop :=
  ODict.get? fs q = ODict.get? fs₀ q ∨
    ∃ kv ∈ all, q = Path.join outdir kv.1 ∧ ODict.get? fs q = some (outputContent kv.2)

/-- `q` is not one of the stage's temporary names -/
def NotTmp (outdir : Str) (all : CodeModel) (q : Str) : Prop :=
  ∀ kv ∈ all, q ≠ Path.join outdir kv.1 ++ tmpSuffix

theorem take_script_cons (outdir : Str) (kv : Str × List Str) (cm : CodeModel) (k : Nat) :
    (script outdir (kv :: cm)).take k =
      if k < (entryOps (Path.join outdir kv.1) kv.2).length then
        (entryOps (Path.join outdir kv.1) kv.2).take k
      else entryOps (Path.join outdir kv.1) kv.2
        ++ (script outdir cm).take (k - (entryOps (Path.join outdir kv.1) kv.2).length) := by
  simp only [script, List.map_cons, List.flatten_cons]
  rw [List.take_append]
  split
  · rename_i h
    have : k - (entryOps (Path.join outdir kv.1) kv.2).length = 0 := by omega
    simp [this]
  · rename_i h
    have : (entryOps (Path.join outdir kv.1) kv.2).length ≤ k := by omega
    rw [List.take_of_length_le this]

/-- **Prefix safety.** After the first `k` operations of the script, for every `k`. -/
theorem script_prefix_safe (outdir : Str) (all : CodeModel) (fs₀ : FS) (cm : CodeModel)
    (hsub : ∀ kv ∈ cm, kv ∈ all) (fs : FS)
    (hfs : ∀ q, NotTmp outdir all q → SafeAt outdir all fs₀ fs q) (k : Nat) (q : Str)
    (hq : NotTmp outdir all q) :
    SafeAt outdir all fs₀ (execOps ((script outdir cm).take k) fs) q := by
  induction cm generalizing fs k with
  | nil => simpa [script, execOps] using hfs q hq
  | cons kv cm ih =>
    have hkv : kv ∈ all := hsub kv (by simp)
    have hqt : q ≠ Path.join outdir kv.1 ++ tmpSuffix := hq kv hkv
    rw [take_script_cons]
    split
    · -- inside this entry, before its rename completes
      rename_i hlt
      rw [entryOps_eq] at hlt ⊢
      have hk : k ≤ (entryPre (Path.join outdir kv.1) kv.2).length := by
        simp only [List.length_append, List.length_cons, List.length_nil] at hlt; omega
      rw [List.take_append_of_le_length hk]
      have := entryPre_take_get? (Path.join outdir kv.1) kv.2 k fs q hqt
      unfold SafeAt
      rw [this]
      exact hfs q hq
    · rw [execOps_append]
      apply ih (fun x hx => hsub x (by simp [hx]))
      intro q' hq'
      have hq't : q' ≠ Path.join outdir kv.1 ++ tmpSuffix := hq' kv hkv
      unfold SafeAt
      rw [entryOps_get? _ _ _ _ hq't]
      by_cases hqp : q' = Path.join outdir kv.1
      · right
        exact ⟨kv, hkv, hqp, by simp [hqp]⟩
      · simp only [hqp, if_false]
        exact hfs q' hq'

end KojenVerif
