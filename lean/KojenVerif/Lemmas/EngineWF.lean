import KojenVerif.Lemmas.EngineInner
import KojenVerif.Lemmas.EngineUserPass
import KojenVerif.Lemmas.EnginePgt
/-
  Executable versions of the theorems' hypotheses, so that the driver can report, for every
  generated template and model, whether the case lies inside the domain the theorems cover.
  Each checker is sound for the corresponding hypothesis.
-/
namespace KojenVerif
namespace Engine
open Str

def userPlainB (i : Spec.BItem) : Bool :=
  (match i with
   | .line l => decide (LineOK l) && decide (NamesOK l)
   | .blank t => decide (Clean t)) &&
  !hasControlTag i.render (T "IF") && !hasControlTag i.render (T "ELSEIF") &&
  !hasControlTag i.render (T "ELSE") && !hasControlTag i.render (T "ENDIF") &&
  !contains (T "FOR_BEGIN") i.render

theorem userPlainB_sound (i : Spec.BItem) (h : userPlainB i = true) : UserPlain i := by
  unfold userPlainB at h
  simp only [Bool.and_eq_true, Bool.not_eq_true'] at h
  obtain ⟨⟨⟨⟨⟨h0, h1⟩, h2⟩, h3⟩, h4⟩, h5⟩ := h
  refine ⟨?_, h1, h2, h3, h4, h5⟩
  cases i with
  | line l => simp only [Bool.and_eq_true, decide_eq_true_eq] at h0; exact h0
  | blank t => simp only [decide_eq_true_eq] at h0; exact h0

def condOKB (ws : Str) (brs : List (Str × List Spec.BItem)) (els : Option (List Spec.BItem)) : Bool :=
  decide (Clean ws) && brs.all (fun p => decide (Clean p.1) && p.2.all userPlainB) &&
  (match els with | some e => e.all userPlainB | none => true)

theorem condOKB_sound (ws : Str) (brs : List (Str × List Spec.BItem)) (els : Option (List Spec.BItem))
    (h : condOKB ws brs els = true) : CondOK ws brs els := by
  unfold condOKB at h
  simp only [Bool.and_eq_true, decide_eq_true_eq, List.all_eq_true] at h
  obtain ⟨⟨hw, hb⟩, he⟩ := h
  refine ⟨hw, fun p hp => (hb p hp).1, fun p hp i hi => userPlainB_sound i ((hb p hp).2 i hi), ?_⟩
  intro e hee i hi
  subst hee
  simp only [List.all_eq_true] at he
  exact userPlainB_sound i (he i hi)

/-- an item of the user-tag pass is inside the theorem's domain -/
def uItemOKB : Spec.Item → Bool
  | .b i => userPlainB i
  | .cond ws brs els =>
    !brs.isEmpty && condOKB ws brs els &&
    (match brs.head? with | some p => !contains (T "FOR_BEGIN") (Spec.delim ws (T "IF " ++ p.1)) | none => true)
  | _ => false

theorem uItemOKB_sound (it : Spec.Item) (h : uItemOKB it = true) : UItemOK it := by
  cases it with
  | b i => exact UItemOK.b i (userPlainB_sound i h)
  | cond ws brs els =>
    simp only [uItemOKB, Bool.and_eq_true, Bool.not_eq_true'] at h
    obtain ⟨⟨hne, hok⟩, hfor⟩ := h
    refine UItemOK.cond ws brs els ?_ (condOKB_sound ws brs els hok) ?_
    · intro e; subst e; simp at hne
    · intro p hp; rw [hp] at hfor; simpa using hfor
  | block k ws body => simp [uItemOKB] at h
  | pst ws body => simp [uItemOKB] at h
  | loop ws p body => simp [uItemOKB] at h

def richFreeB (nl : Str) : Bool :=
  !hasSpecificTag nl (T "<<<SIGNATURE>>>") && !hasSpecificTag nl (T "<<<MEMBERSINSTANTIATE>>>") &&
  !contains (T "<<<MEMBERSINSTANTIATE>>>") nl && !hasSpecificTag nl (T "<<<MEMBERSLITEINSTANTIATE>>>") &&
  !contains (T "<<<MEMBERSLITEINSTANTIATE>>>") nl && !contains (T "<<<MEMBERSDECLARE>>>") nl &&
  !hasSpecificTag nl (T "<<<DOCUMENTATION>>>") && !hasSpecificTag nl (T "<<<AGGREGATEINITIALIZATION>>>") &&
  !hasSpecificTag nl (T "<<<ATTRIBUTETYPE>>>") && !hasSpecificTag nl (T "<<<ATTRIBUTENAME>>>") &&
  !hasSpecificTag nl (T "<<<PyAttr>>>")

theorem richFreeB_sound (nl : Str) (h : richFreeB nl = true) : RichFree nl := by
  unfold richFreeB at h
  simp only [Bool.and_eq_true, Bool.not_eq_true'] at h
  obtain ⟨⟨⟨⟨⟨⟨⟨⟨⟨⟨a, b⟩, c⟩, d⟩, e⟩, f⟩, g⟩, i⟩, j⟩, k⟩, l⟩ := h
  exact ⟨a, b, c, d, e, f, g, i, j, k, l⟩

def chainOKB (chain : List (Str × Str)) : Bool :=
  chain.all (fun kv => decide (Clean kv.1) && decide (NoEq kv.1) && decide (Clean kv.2))

theorem chainOKB_sound (chain : List (Str × Str)) (h : chainOKB chain = true) : ChainOK chain := by
  unfold chainOKB at h
  simp only [List.all_eq_true, Bool.and_eq_true, decide_eq_true_eq] at h
  exact ⟨fun kv hkv => ⟨(h kv hkv).1.1, (h kv hkv).1.2⟩, fun kv hkv => (h kv hkv).2⟩

def bodyLineOKB (name : Str) (idx : Nat) (i : Spec.BItem) : Bool :=
  (match i with
   | .line l => decide (LineOK l) && richFreeB (Spec.renderLine (Spec.substLine (Spec.byDict (elemDict name idx)) l))
   | .blank t => decide (Clean t) && isSpace (t ++ [NL])) &&
  chainOKB (smKeys name (alphaOf idx) idx)

theorem bodyLineOKB_sound (name : Str) (idx : Nat) (i : Spec.BItem) (h : bodyLineOKB name idx i = true) :
    BodyLineOK name idx i := by
  unfold bodyLineOKB at h
  simp only [Bool.and_eq_true] at h
  obtain ⟨h1, h2⟩ := h
  cases i with
  | line l =>
    simp only [Bool.and_eq_true, decide_eq_true_eq] at h1
    exact ⟨h1.1, chainOKB_sound _ h2, richFreeB_sound _ h1.2⟩
  | blank t =>
    simp only [Bool.and_eq_true, decide_eq_true_eq] at h1
    exact ⟨h1, chainOKB_sound _ h2, trivial⟩

/-- a names block (state / event / action / guard) is inside the theorem's domain for `items` -/
def blockOKB (items : List Str) (body : List Spec.BItem) : Bool :=
  (enumFrom 0 items).all (fun p => body.all (bodyLineOKB p.2 p.1))

theorem blockOKB_sound (items : List Str) (body : List Spec.BItem) (h : blockOKB items body = true) :
    ∀ p ∈ enumFrom 0 items, ∀ i ∈ body, BodyLineOK p.2 p.1 i := by
  unfold blockOKB at h
  simp only [List.all_eq_true] at h
  exact fun p hp i hi => bodyLineOKB_sound p.2 p.1 i (h p hp i hi)

def chunkOKB (sk ek : Str) : Chunk → Bool
  | .plain ls => ls.all (fun l => !isMark sk l && !isMark ek l)
  | .block b body e =>
    isMark sk b && !isMark ek b && body.all (fun l => !isMark sk l && !isMark ek l) && isMark ek e && !isMark sk e

theorem chunkOKB_sound (sk ek : Str) (c : Chunk) (h : chunkOKB sk ek c = true) : c.OK sk ek := by
  cases c with
  | plain ls =>
    simp only [chunkOKB, List.all_eq_true, Bool.and_eq_true, Bool.not_eq_true'] at h
    exact h
  | block b body e =>
    simp only [chunkOKB, List.all_eq_true, Bool.and_eq_true, Bool.not_eq_true'] at h
    obtain ⟨⟨⟨⟨h1, h2⟩, h3⟩, h4⟩, h5⟩ := h
    exact ⟨⟨h1, h2⟩, h3, ⟨h4, h5⟩⟩

end Engine
end KojenVerif
