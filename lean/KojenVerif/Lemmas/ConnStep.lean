import KojenVerif.Lemmas.Conn
/-
  The single-chunk step of the reassembly proof: from the canonical state of any position
  in a well-formed stream, a chunk of any length leads to the canonical state of the
  position behind the chunk and delivers exactly the messages completed inside it.
-/
namespace KojenVerif
namespace Conn

/-- where in the stream the connection stands: at a segment boundary / inside filler, or
    `pre` bytes into a message whose remaining bytes are `rem` -/
inductive Pos where
  | idle
  | mid (pre rem : Bytes)

def canon : Pos → St
  | .idle => St.init
  | .mid pre rem => ⟨pre, if pre.length < 8 then 0 else rem.length⟩

def WFPos (c : Cfg) : Pos → Prop
  | .idle => True
  | .mid pre rem => pre ≠ [] ∧ rem ≠ [] ∧ IsMsg c (pre ++ rem)

/-- the stream behind the current message: (filler, message) pairs and a trailing filler -/
abbrev Segs := List (Bytes × Bytes)

def flatS : Segs → Bytes → Bytes
  | [], tail => tail
  | (f, m) :: segs, tail => f ++ (m ++ flatS segs tail)

def WFSegs (c : Cfg) (segs : Segs) (tail : Bytes) : Prop :=
  (∀ fm ∈ segs, c.p0 ∉ fm.1 ∧ IsMsg c fm.2) ∧ c.p0 ∉ tail

def remOf : Pos → Bytes
  | .idle => []
  | .mid _ rem => rem

def pendOf : Pos → List Bytes
  | .idle => []
  | .mid pre rem => [pre ++ rem]

def msgsOf (segs : Segs) : List Bytes := segs.map (·.2)

/-- the conclusion of a step from position `pos` over chunk `d` with `rest` remaining -/
def StepOK (c : Cfg) (res : St × List Bytes) (pos : Pos) (segs : Segs) (rest : Bytes) : Prop :=
  ∃ pos' segs' tail', WFPos c pos' ∧ WFSegs c segs' tail' ∧ res.1 = canon pos' ∧
    remOf pos' ++ flatS segs' tail' = rest ∧ res.2 ++ (pendOf pos' ++ msgsOf segs') = pendOf pos ++ msgsOf segs

/-- continuation hypothesis: what the re-entry does on the bytes behind a completed message -/
def Cont (c : Cfg) (rec : St → Bytes → St × List Bytes) (n : Nat) : Prop :=
  ∀ d' : Bytes, d'.length < n → ∀ segs tail rest, WFSegs c segs tail → flatS segs tail = d' ++ rest →
    StepOK c (after rec St.init d') .idle segs rest

theorem not_mem_of_append_left {x : Nat} {a b : Bytes} (h : x ∉ a ++ b) : x ∉ a :=
  fun m => h (List.mem_append_left b m)

theorem not_mem_of_append_right {x : Nat} {a b : Bytes} (h : x ∉ a ++ b) : x ∉ b :=
  fun m => h (List.mem_append_right a m)

/-- splitting `x ++ y = d ++ rest` by comparing lengths -/
theorem split_lt {x y d rest : Bytes} (h : x ++ y = d ++ rest) (hl : d.length < x.length) :
    ∃ x', x = d ++ x' ∧ x' ≠ [] ∧ rest = x' ++ y := by
  rcases List.append_eq_append_iff.1 h with ⟨a', h1, h2⟩ | ⟨c', h1, h2⟩
  · -- d = x ++ a'
    have : d.length = x.length + a'.length := by rw [h1]; simp
    omega
  · refine ⟨c', h1, ?_, h2⟩
    intro e; subst e; simp at h1; subst h1; omega

theorem split_ge {x y d rest : Bytes} (h : x ++ y = d ++ rest) (hl : x.length ≤ d.length) :
    ∃ d', d = x ++ d' ∧ y = d' ++ rest := by
  rcases List.append_eq_append_iff.1 h with ⟨a', h1, h2⟩ | ⟨c', h1, h2⟩
  · exact ⟨a', h1, h2⟩
  · have : x.length = d.length + c'.length := by rw [h1]; simp
    have hc : c' = [] := by
      cases c' with
      | nil => rfl
      | cons z zs => simp at this; omega
    subst hc
    simp at h1 h2
    exact ⟨[], by simp [h1], by simp [h2]⟩

/-- header bytes of a message whose first `pre` bytes are buffered -/
theorem hdr_eq (pre rem a tl : Bytes) (hpre : pre.length < 8) (hm : 8 ≤ (pre ++ rem).length)
    (ha : a = rem ++ tl ∨ (∃ r', rem = a ++ r' ∧ 8 ≤ pre.length + a.length)) :
    pre ++ a.take (8 - pre.length) = (pre ++ rem).take 8 := by
  have hlen : 8 - pre.length ≤ rem.length := by simp at hm; omega
  rw [List.take_append]
  have : (pre.take 8) = pre := List.take_of_length_le (by omega)
  rw [this]
  congr 1
  rcases ha with ha | ⟨r', hr, h8⟩
  · subst ha
    rw [List.take_append_of_le_length hlen]
  · subst hr
    have : 8 - pre.length ≤ a.length := by omega
    rw [List.take_append_of_le_length this]


theorem head_of_prefix {x d rest : Bytes} {v : Nat} (hd : d ≠ []) (h : x = d ++ rest) (hx : x.head? = some v) :
    d.head? = some v := by
  cases d with
  | nil => exact absurd rfl hd
  | cons y ys => subst h; simpa using hx

/-- second byte of the message is the first byte of `rem` when one byte is buffered -/
theorem mid_one (c : Cfg) (pre rem : Bytes) (hm : IsMsg c (pre ++ rem)) (h1 : pre.length = 1) :
    rem.head? = some c.p1 := by
  cases pre with
  | nil => simp at h1
  | cons x pre =>
    have : pre = [] := by
      cases pre with
      | nil => rfl
      | cons y ys => simp at h1
    subst this
    have hb := hm.b1
    have hl := hm.len
    cases rem with
    | nil => simp at hl
    | cons r rs => simpa using hb

variable (c : Cfg) (rec : St → Bytes → St × List Bytes)

theorem step_mid (pre rem d rest : Bytes) (segs : Segs) (tail : Bytes) (hd : d ≠ [])
    (hwf : WFPos c (.mid pre rem)) (hs : WFSegs c segs tail)
    (hstream : rem ++ flatS segs tail = d ++ rest) (hcont : Cont c rec d.length) :
    StepOK c (handle c rec (canon (.mid pre rem)) d) (.mid pre rem) segs rest := by
  obtain ⟨hpre, hrem, hm⟩ := hwf
  have hmlen : 8 ≤ pre.length + rem.length := by have := hm.len; simpa using this
  have htot := hm.total
  simp only [List.length_append] at htot
  -- first byte of the chunk when exactly one byte is buffered
  have hone : pre.length = 1 → d.head? = some c.p1 := by
    intro h1
    have hr := mid_one c pre rem hm h1
    cases rem with
    | nil => exact absurd rfl hrem
    | cons r rs =>
      cases d with
      | nil => exact absurd rfl hd
      | cons y ys =>
        simp only [List.cons_append, List.cons.injEq] at hstream
        simp only [List.head?_cons, Option.some.injEq] at hr ⊢
        rw [← hstream.1]; exact hr
  by_cases hlt : d.length < rem.length
  · -- the chunk ends inside the message
    obtain ⟨rem', hrem', hne', hrest⟩ := split_lt hstream hlt
    have hlen' : rem.length = d.length + rem'.length := by rw [hrem']; simp
    have hm' : IsMsg c ((pre ++ d) ++ rem') := by
      rw [List.append_assoc, ← hrem']; exact hm
    have hpd : pre ++ d ≠ [] := by simp [hpre]
    by_cases h8 : pre.length < 8
    · by_cases hs8 : pre.length + d.length < 8
      · -- still fewer than 8 bytes
        refine ⟨.mid (pre ++ d) rem', segs, tail, ⟨hpd, hne', hm'⟩, hs, ?_, ?_, ?_⟩
        · simp only [canon, h8, if_true]
          rw [handle_hdr_short c rec pre d hpre hone hs8]
          simp [hs8]
        · simp [remOf, hrest]
        · simp only [canon, h8, if_true]
          rw [handle_hdr_short c rec pre d hpre hone hs8]
          simp [pendOf, hrem']
      · -- header completes inside the chunk
        have h8' : 8 ≤ pre.length + d.length := by omega
        have hhdr := hdr_eq pre rem d [] h8 (by simpa using hmlen) (Or.inr ⟨rem', hrem', h8'⟩)
        have hps : payloadSize (pre ++ d.take (8 - pre.length)) = payloadSize (pre ++ rem) := by
          rw [hhdr, payloadSize_take _ 8 (Nat.le_refl 8)]
        have hlt2 : pre.length + d.length < 8 + payloadSize (pre ++ d.take (8 - pre.length)) := by
          rw [hps]; unfold headerSize at htot; omega
        refine ⟨.mid (pre ++ d) rem', segs, tail, ⟨hpd, hne', hm'⟩, hs, ?_, ?_, ?_⟩
        · simp only [canon, h8, if_true]
          rw [handle_hdr_more c rec pre d hpre hone h8' hlt2, hps]
          have : ¬ (pre ++ d).length < 8 := by simp; omega
          simp only [this, if_false]
          congr 1
          unfold headerSize at htot; omega
        · simp [remOf, hrest]
        · simp only [canon, h8, if_true]
          rw [handle_hdr_more c rec pre d hpre hone h8' hlt2]
          simp [pendOf, hrem']
    · -- payload bytes
      have h8' : 8 ≤ pre.length := by omega
      have hreq : 0 < rem.length := length_pos_of_ne_nil hrem
      refine ⟨.mid (pre ++ d) rem', segs, tail, ⟨hpd, hne', hm'⟩, hs, ?_, ?_, ?_⟩
      · simp only [canon, h8, if_false]
        rw [handle_pay_more c rec pre d rem.length h8' hreq hlt]
        have : ¬ (pre ++ d).length < 8 := by simp; omega
        simp only [this, if_false]
        congr 1
        omega
      · simp [remOf, hrest]
      · simp only [canon, h8, if_false]
        rw [handle_pay_more c rec pre d rem.length h8' hreq hlt]
        simp [pendOf, hrem']
  · -- the message completes inside the chunk
    have hge : rem.length ≤ d.length := by omega
    obtain ⟨d', hd', hS⟩ := split_ge hstream hge
    have hd'len : d'.length < d.length := by
      rw [hd']; simp; exact length_pos_of_ne_nil hrem
    have hc := hcont d' hd'len segs tail rest hs hS
    obtain ⟨pos', segs', tail', hw', hs', hst, hrem2, hout⟩ := hc
    by_cases h8 : pre.length < 8
    · have hhdr := hdr_eq pre rem d d' h8 (by simpa using hmlen) (Or.inl hd')
      have hps : payloadSize (pre ++ d.take (8 - pre.length)) = payloadSize (pre ++ rem) := by
        rw [hhdr, payloadSize_take _ 8 (Nat.le_refl 8)]
      have ht : 8 ≤ pre.length + d.length := by omega
      have hge2 : 8 + payloadSize (pre ++ d.take (8 - pre.length)) ≤ pre.length + d.length := by
        rw [hps]; unfold headerSize at htot; omega
      have hstp : 8 - pre.length + payloadSize (pre ++ d.take (8 - pre.length)) = rem.length := by
        rw [hps]; unfold headerSize at htot; omega
      have hdrop : d.drop (8 - pre.length + payloadSize (pre ++ d.take (8 - pre.length))) = d' := by
        rw [hstp, hd', List.drop_left]
      have hmsg : pre ++ d.take (8 - pre.length) ++
          (d.drop (8 - pre.length)).take (payloadSize (pre ++ d.take (8 - pre.length))) = pre ++ rem := by
        rw [List.append_assoc]
        congr 1
        have e1 : 8 - pre.length ≤ rem.length := by omega
        have e2 : payloadSize (pre ++ d.take (8 - pre.length)) = rem.length - (8 - pre.length) := by omega
        rw [e2]
        rw [hd', List.take_append_of_le_length e1, List.drop_append_of_le_length e1,
          List.take_append_of_le_length (by simp), ← List.drop_take]
        rw [List.take_length, List.take_append_drop]
      refine ⟨pos', segs', tail', hw', hs', ?_, hrem2, ?_⟩
      · simp only [canon, h8, if_true]
        rw [handle_hdr_done c rec pre d hpre hone ht hge2, hdrop]
        exact hst
      · simp only [canon, h8, if_true]
        rw [handle_hdr_done c rec pre d hpre hone ht hge2, hdrop, hmsg]
        simp only [List.cons_append]
        rw [hout]; simp [pendOf]
    · have h8' : 8 ≤ pre.length := by omega
      have hreq : 0 < rem.length := length_pos_of_ne_nil hrem
      have hdrop : d.drop rem.length = d' := by rw [hd', List.drop_left]
      have htake : d.take rem.length = rem := by rw [hd', List.take_left]
      refine ⟨pos', segs', tail', hw', hs', ?_, hrem2, ?_⟩
      · simp only [canon, h8, if_false]
        rw [handle_pay_done c rec pre d rem.length h8' hreq hge, hdrop]
        exact hst
      · simp only [canon, h8, if_false]
        rw [handle_pay_done c rec pre d rem.length h8' hreq hge, hdrop, htake]
        simp only [List.cons_append]
        rw [hout]; simp [pendOf]


/-- a non-empty prefix of `m ++ S` (with `m` a message) begins like a message -/
theorem startsMsg_of_prefix (m S a rest : Bytes) (hm : IsMsg c m) (ha : a ≠ []) (h : m ++ S = a ++ rest) :
    StartsMsg c a := by
  have hl := hm.len
  cases m with
  | nil => simp at hl
  | cons x m =>
    cases m with
    | nil => simp at hl
    | cons y m =>
      have hb0 := hm.b0
      have hb1 := hm.b1
      simp only [List.head?_cons, Option.some.injEq] at hb0
      simp only [List.getD_cons_succ, List.getD_cons_zero] at hb1
      cases a with
      | nil => exact absurd rfl ha
      | cons a0 a =>
        simp only [List.cons_append, List.cons.injEq] at h
        obtain ⟨h0, h⟩ := h
        refine ⟨by simp [← h0, hb0], ?_⟩
        cases a with
        | nil => left; rfl
        | cons a1 a =>
          right
          simp only [List.cons_append, List.cons.injEq] at h
          simp [← h.1, hb1]

theorem step_idle (d rest : Bytes) (segs : Segs) (tail : Bytes) (hd : d ≠ [])
    (hs : WFSegs c segs tail) (hstream : flatS segs tail = d ++ rest) (hcont : Cont c rec d.length) :
    StepOK c (match actualData c St.init d with
              | none => (St.init, [])
              | some a => handle c rec St.init a) .idle segs rest := by
  cases segs with
  | nil =>
    -- only trailing filler is left
    simp only [flatS] at hstream
    have hno : c.p0 ∉ d := by
      have := hs.2; rw [hstream] at this; exact not_mem_of_append_left this
    rw [actualData_none c d hd hno]
    refine ⟨.idle, [], rest, trivial, ⟨by simp, ?_⟩, rfl, by simp [remOf, flatS], by simp [pendOf, msgsOf]⟩
    have := hs.2; rw [hstream] at this; exact not_mem_of_append_right this
  | cons fm segs =>
    obtain ⟨f, m⟩ := fm
    have hfm0 := hs.1 (f, m) (by simp)
    have hfm : c.p0 ∉ f ∧ IsMsg c m := hfm0
    have hs' : WFSegs c segs tail := ⟨fun x hx => hs.1 x (by simp [hx]), hs.2⟩
    simp only [flatS] at hstream
    by_cases hlf : d.length ≤ f.length
    · -- the chunk lies inside the filler: ignored
      obtain ⟨f', hf', hrest⟩ : ∃ f', f = d ++ f' ∧ rest = f' ++ (m ++ flatS segs tail) := by
        rcases List.append_eq_append_iff.1 hstream with ⟨a', h1, h2⟩ | ⟨c', h1, h2⟩
        · have : d.length = f.length + a'.length := by rw [h1]; simp
          have ha' : a' = [] := by
            cases a' with
            | nil => rfl
            | cons z zs => simp at this; omega
          subst ha'
          exact ⟨[], by simpa using h1.symm, by simpa using h2.symm⟩
        · exact ⟨c', h1, h2⟩
      have hno : c.p0 ∉ d := by have := hfm.1; rw [hf'] at this; exact not_mem_of_append_left this
      have hnof' : c.p0 ∉ f' := by have := hfm.1; rw [hf'] at this; exact not_mem_of_append_right this
      rw [actualData_none c d hd hno]
      refine ⟨.idle, (f', m) :: segs, tail, trivial, ⟨?_, hs.2⟩, rfl, by simp [remOf, flatS, hrest], by simp [pendOf, msgsOf]⟩
      intro x hx
      simp only [List.mem_cons] at hx
      rcases hx with rfl | hx
      · exact ⟨hnof', hfm.2⟩
      · exact hs.1 x (by simp [hx])
    · -- the chunk reaches into the message
      have hlf' : f.length ≤ d.length := by omega
      obtain ⟨a, hda, hS⟩ := split_ge hstream hlf'
      have hane : a ≠ [] := by
        intro e; subst e; simp at hda; subst hda; omega
      have hstart := startsMsg_of_prefix c m (flatS segs tail) a rest hfm.2 hane hS
      rw [hda, actualData_start c f a hfm.1 hstart]
      simp only
      have hm := hfm.2
      have htot := hm.total
      unfold headerSize at htot
      by_cases hlt : a.length < m.length
      · obtain ⟨m', hm', hne', hrest⟩ := split_lt hS hlt
        have hlen : m.length = a.length + m'.length := by rw [hm']; simp
        have hmsg : IsMsg c (a ++ m') := by rw [← hm']; exact hm
        by_cases h8 : a.length < 8
        · rw [handle_idle_short c rec a h8]
          refine ⟨.mid a m', segs, tail, ⟨hane, hne', hmsg⟩, hs', by simp [canon, h8], by simp [remOf, hrest], ?_⟩
          simp [pendOf, msgsOf, hm']
        · have h8' : 8 ≤ a.length := by omega
          have hps : payloadSize a = payloadSize m := by
            apply payloadSize_congr
            rw [hm', List.take_append_of_le_length h8']
          have hlt2 : a.length < 8 + payloadSize a := by rw [hps]; omega
          rw [handle_idle_more c rec a h8' hlt2]
          refine ⟨.mid a m', segs, tail, ⟨hane, hne', hmsg⟩, hs', ?_, by simp [remOf, hrest], ?_⟩
          · simp only [canon, h8, if_false]
            congr 1
            rw [hps]; omega
          · simp [pendOf, msgsOf, hm']
      · have hge : m.length ≤ a.length := by omega
        obtain ⟨d', hd', hS'⟩ := split_ge hS hge
        have h8' : 8 ≤ a.length := by have := hm.len; omega
        have hps : payloadSize a = payloadSize m := by
          apply payloadSize_congr
          rw [hd', List.take_append_of_le_length hm.len]
        have hge2 : 8 + payloadSize a ≤ a.length := by rw [hps]; omega
        have hd'len : d'.length < d.length := by
          rw [hda, hd']; simp
          have := hm.len; omega
        obtain ⟨pos', segs', tail', hw', hs2, hst, hrem2, hout⟩ := hcont d' hd'len segs tail rest hs' hS'
        have hms : 8 + payloadSize a = m.length := by rw [hps]; omega
        rw [handle_idle_done c rec a h8' hge2, hms]
        have hdrop : a.drop m.length = d' := by rw [hd', List.drop_left]
        have htake : a.take m.length = m := by rw [hd', List.take_left]
        rw [hdrop, htake]
        refine ⟨pos', segs', tail', hw', hs2, hst, hrem2, ?_⟩
        simp only [List.cons_append]
        rw [hout]; simp [pendOf, msgsOf]

/-- **Single chunk.** From the canonical state of any position of a well-formed stream a
    chunk of any length leads to the canonical state behind it and delivers exactly the
    messages completed inside it. -/
theorem step : ∀ (n : Nat) (d : Bytes), d.length = n → ∀ fuel, n + 1 ≤ fuel →
    ∀ pos segs tail rest, WFPos c pos → WFSegs c segs tail →
      remOf pos ++ flatS segs tail = d ++ rest →
      StepOK c (onData c fuel (canon pos) d) pos segs rest := by
  intro n
  induction n using Nat.strongRecOn with
  | _ n ih =>
    intro d hdn fuel hfuel pos segs tail rest hw hs hstream
    cases fuel with
    | zero => omega
    | succ fuel =>
      by_cases hd : d = []
      · subst hd
        simp only [onData, List.isEmpty_nil, if_true]
        exact ⟨pos, segs, tail, hw, hs, rfl, by simpa using hstream, by simp⟩
      · have hne : d.isEmpty = false := by
          cases d with
          | nil => exact absurd rfl hd
          | cons x xs => rfl
        -- the continuation behind a completed message, from the induction hypothesis
        have hcont : Cont c (onData c fuel) d.length := by
          intro d' hd'len segs2 tail2 rest2 hs2 hS2
          unfold after
          by_cases he : d' = []
          · subst he
            simp only [List.isEmpty_nil, if_true]
            exact ⟨.idle, segs2, tail2, trivial, hs2, rfl, by simpa [remOf] using hS2, by simp⟩
          · have hne' : d'.isEmpty = false := by
              cases d' with
              | nil => exact absurd rfl he
              | cons x xs => rfl
            simp only [hne', Bool.false_eq_true, if_false]
            have := ih d'.length (by omega) d' rfl fuel (by omega) .idle segs2 tail2 rest2 trivial hs2
              (by simpa [remOf] using hS2)
            simpa [canon] using this
        cases pos with
        | idle =>
          simp only [onData, hne, Bool.false_eq_true, if_false, canon]
          have := step_idle c (onData c fuel) d rest segs tail hd hs (by simpa [remOf] using hstream) hcont
          cases hact : actualData c St.init d with
          | none => simpa [hact] using this
          | some a => simpa [hact] using this
        | mid pre rem =>
          have hbuf : (canon (.mid pre rem)).buf ≠ [] := by simpa [canon] using hw.1
          simp only [onData, hne, Bool.false_eq_true, if_false, actualData_mid c _ d hbuf]
          exact step_mid c (onData c fuel) pre rem d rest segs tail hd hw hs (by simpa [remOf] using hstream) hcont

end Conn
end KojenVerif
