import KojenVerif.Lemmas.EnginePgt
/-
  The two outer levels of the nested transition expansion: per event of a state
  (`petExpand`, around the per-guard-transition blocks) and per state (`pstExpand`).
-/
namespace KojenVerif
namespace Engine
open Str

theorem concatOpt_all_some (xs : List (List Line)) : concatOpt (xs.map some) = some xs.flatten := by
  induction xs with
  | nil => rfl
  | cons x xs ih => simp only [List.map_cons, concatOpt_some_cons, ih, Option.map_some, List.flatten_cons]

/-! ### name substitution on rendered items and delimiter lines -/

def BItemOK : Spec.BItem → Prop
  | .line l => LineOK l
  | .blank t => Clean t

instance : (i : Spec.BItem) → Decidable (BItemOK i)
  | .line _ => by unfold BItemOK; exact inferInstance
  | .blank _ => by unfold BItemOK; exact inferInstance

theorem blank_as_line (t : Str) : (Spec.BItem.blank t).render = Spec.renderLine [.lit t] := by
  simp [Spec.BItem.render, Spec.renderLine, Spec.Seg.render]

theorem delim_as_line (ws kw : Str) : Spec.delim ws kw = Spec.renderLine [.lit ws, .tag kw none] := by
  simp [Spec.delim, Spec.renderLine, Spec.Seg.render]

theorem applySubst_bitem (chain : List (Str × Str)) (hc : ChainOK chain) (i : Spec.BItem) (h : BItemOK i) :
    applySubst (toPat chain) i.render = (i.subst (Spec.byDict chain)).render := by
  cases i with
  | line l =>
    simp only [Spec.BItem.render, Spec.BItem.subst]
    rw [(applySubst_renderLine chain hc l h).1, substChain_eq]
  | blank t =>
    have hl : LineOK [.lit t] := by intro s hs; simp only [List.mem_singleton] at hs; subst hs; exact h
    simp only [Spec.BItem.subst]
    rw [blank_as_line, (applySubst_renderLine chain hc _ hl).1, substChain_tagless chain _ rfl]

theorem substChain_delim (chain : List (Str × Str)) (ws kw : Str) (hne : ∀ kv ∈ chain, kv.1 ≠ kw) :
    substChain chain [.lit ws, .tag kw none] = [.lit ws, .tag kw none] := by
  induction chain with
  | nil => rfl
  | cons kv chain ih =>
    simp only [substChain, List.foldl_cons] at ih ⊢
    have h1 : kw ≠ kv.1 := fun e => hne kv (by simp) e.symm
    have : substOne kv.1 kv.2 [.lit ws, .tag kw none] = [.lit ws, .tag kw none] := by simp [substOne, h1]
    rw [this]
    exact ih (fun x hx => hne x (by simp [hx]))

theorem applySubst_delim (chain : List (Str × Str)) (hc : ChainOK chain) (ws kw : Str) (hw : Clean ws) (hk : Clean kw)
    (hne : ∀ kv ∈ chain, kv.1 ≠ kw) : applySubst (toPat chain) (Spec.delim ws kw) = Spec.delim ws kw := by
  have hl : LineOK [.lit ws, .tag kw none] := by
    intro s hs
    simp only [List.mem_cons, List.not_mem_nil, or_false] at hs
    rcases hs with rfl | rfl
    · exact hw
    · exact hk
  rw [delim_as_line, (applySubst_renderLine chain hc _ hl).1, substChain_delim chain ws kw hne]

theorem blockParam_delim (ws kw : Str) (hw : Clean ws) (hk : Clean kw) (hke : NoEq kw) : blockParam (Spec.delim ws kw) = [] := by
  unfold blockParam
  have hl : LineOK [.lit ws, .tag kw none] := by
    intro s hs
    simp only [List.mem_cons, List.not_mem_nil, or_false] at hs
    rcases hs with rfl | rfl
    · exact hw
    · exact hk
  have hn : NamesOK [.lit ws, .tag kw none] := by
    intro s hs
    simp only [List.mem_cons, List.not_mem_nil, or_false] at hs
    rcases hs with rfl | rfl
    · trivial
    · exact hke
  rw [delim_as_line, hasDefault_renderLine _ hl hn]
  rfl

theorem lookupS_swap (k1 v1 k2 v2 : Str) (r : List (Str × Str)) (h : k1 ≠ k2) (n : Str) :
    Spec.lookupS ((k1, v1) :: (k2, v2) :: r) n = Spec.lookupS ((k2, v2) :: (k1, v1) :: r) n := by
  simp only [Spec.lookupS, List.find?_cons]
  by_cases h1 : k1 = n
  · by_cases h2 : k2 = n
    · exact absurd (h1.trans h2.symm) h
    · have e1 : (k1 == n) = true := by simpa using h1
      have e2 : (k2 == n) = false := by simpa using h2
      simp [e1, e2]
  · have e1 : (k1 == n) = false := by simpa using h1
    simp [e1]

/-! ### per event -/

def evKeys (e : Str) : List (Str × Str) :=
  [(T "EVENTNAME", e), (T "eventName", camelSmall e), (T "EVENT_NAME", snakeCase e)]

def stKeys (s : Str) : List (Str × Str) :=
  [(T "STATENAME", s), (T "stateName", camelSmall s), (T "STATE_NAME", snakeCase s)]

theorem filterEventName_eq (e : Str) (l : Line) : filterEventName e l = applySubst (toPat (evKeys e)) l := rfl
theorem filterStateName_eq (s : Str) (l : Line) : filterStateName s l = applySubst (toPat (stKeys s)) l := rfl

theorem byDict_evKeys (e : Str) :
    Spec.byDict (evKeys e) = Spec.byDict (Spec.caseTags "EVENTNAME" "eventName" "EVENT_NAME" e) := by
  funext n d
  cases d with
  | some d => rfl
  | none =>
    simp only [Spec.byDict, evKeys, Spec.caseTags]
    exact lookupS_swap _ _ _ _ _ (by decide) n

theorem byDict_stKeys (s : Str) :
    Spec.byDict (stKeys s) = Spec.byDict (Spec.caseTags "STATENAME" "stateName" "STATE_NAME" s) := by
  funext n d
  cases d with
  | some d => rfl
  | none =>
    simp only [Spec.byDict, stKeys, Spec.caseTags]
    exact lookupS_swap _ _ _ _ _ (by decide) n

def PGTB : Str := T "PER_GUARDTRANSITION_BEGIN"
def PGTE : Str := T "PER_GUARDTRANSITION_END"
def PETB : Str := T "PER_EVENTTRANSITION_BEGIN"
def PETE : Str := T "PER_EVENTTRANSITION_END"

/-- conditions for substituting names in a per-event item -/
def PetItemOK0 : Spec.PetItem → Prop
  | .b i => BItemOK i
  | .pgt ws body => Clean ws ∧ ∀ i ∈ body, BItemOK i

/-- the keys of a name chain are none of the nested delimiters' keywords -/
def KeysFree (chain : List (Str × Str)) : Prop :=
  ∀ kv ∈ chain, kv.1 ≠ PGTB ∧ kv.1 ≠ PGTE ∧ kv.1 ≠ PETB ∧ kv.1 ≠ PETE

theorem evKeys_free (e : Str) : KeysFree (evKeys e) := by
  intro kv h
  simp only [evKeys, List.mem_cons, List.not_mem_nil, or_false] at h
  rcases h with rfl | rfl | rfl <;> (dsimp only; decide)

theorem stKeys_free (s : Str) : KeysFree (stKeys s) := by
  intro kv h
  simp only [stKeys, List.mem_cons, List.not_mem_nil, or_false] at h
  rcases h with rfl | rfl | rfl <;> (dsimp only; decide)

theorem filter_petItem (chain : List (Str × Str)) (hc : ChainOK chain) (hf : KeysFree chain) (it : Spec.PetItem)
    (h : PetItemOK0 it) : it.render.map (applySubst (toPat chain)) = (it.subst (Spec.byDict chain)).render := by
  cases it with
  | b i => simp only [Spec.PetItem.render, Spec.PetItem.subst, List.map_cons, List.map_nil, applySubst_bitem chain hc i h]
  | pgt ws body =>
    obtain ⟨hw, hb⟩ := h
    simp only [Spec.PetItem.render, Spec.PetItem.subst, List.map_append, List.map_cons, List.map_nil, List.map_map]
    rw [applySubst_delim chain hc ws (T "PER_GUARDTRANSITION_BEGIN") hw (by decide) (fun kv hkv => (hf kv hkv).1),
      applySubst_delim chain hc ws (T "PER_GUARDTRANSITION_END") hw (by decide) (fun kv hkv => (hf kv hkv).2.1)]
    congr 2
    apply List.map_congr_left
    intro i hi
    exact applySubst_bitem chain hc i (hb i hi)

def petChunk : Spec.PetItem → Chunk
  | .b i => .plain [i.render]
  | .pgt ws body => .block (Spec.delim ws PGTB) (body.map Spec.BItem.render) (Spec.delim ws PGTE)

theorem petChunk_lines (it : Spec.PetItem) : (petChunk it).lines = it.render := by
  cases it <;> rfl

/-- what one per-event item contributes for one event (names already substituted) -/
def petOut (t : List Table.Row) (s e : Str) : Spec.PetItem → List Spec.BItem
  | .b i => [i]
  | .pgt _ b => Spec.expandPgt t s e b

/-- the grammar of one per-event item for one (state, event) pair, names substituted -/
def PetItemOK (t : List Table.Row) (s e : Str) (it : Spec.PetItem) : Prop :=
  (petChunk it).OK PGTB PGTE ∧
  match it with
  | .b _ => True
  | .pgt ws b => Clean ws ∧ ∀ r ∈ Table.rowsFor t s e, ∀ i ∈ b, PgtItemOK (Spec.transTags r) i

theorem chunkOut_pet (t : List Table.Row) (s e : Str) (hr : ∀ r ∈ Table.rowsFor t s e, RowOK r)
    (it : Spec.PetItem) (h : PetItemOK t s e it) :
    chunkOut (pgtExpand (Table.rowsFor t s e)) (petChunk it) = some ((petOut t s e it).map Spec.BItem.render) := by
  cases it with
  | b i => rfl
  | pgt ws b =>
    obtain ⟨_, hw, hb⟩ := h
    simp only [petChunk, chunkOut, petOut, Spec.expandPgt]
    rw [blockParam_delim ws PGTB hw (by decide) (by decide)]
    exact pgtExpand_eq _ b hr hb

/-- **per-guard pass of one event**: lines outside the inner blocks with the event's name in place,
    every inner block expanded over the transitions of the (state, event) pair -/
theorem perGuard_eq (t : List Table.Row) (s e : Str) (body : List Spec.PetItem)
    (h0 : ∀ it ∈ body, PetItemOK0 it) (he : ChainOK (evKeys e))
    (hr : ∀ r ∈ Table.rowsFor t s e, RowOK r)
    (h1 : ∀ it ∈ body, PetItemOK t s e (it.subst (Spec.byDict (Spec.caseTags "EVENTNAME" "eventName" "EVENT_NAME" e)))) :
    perGuard t s e ((body.map Spec.PetItem.render).flatten) =
      some (((body.map (fun it => petOut t s e (it.subst (Spec.byDict (Spec.caseTags "EVENTNAME" "eventName" "EVENT_NAME" e))))).flatten).map
        Spec.BItem.render) := by
  unfold perGuard
  have hfl : ((body.map Spec.PetItem.render).flatten).map (filterEventName e) =
      ((body.map (fun it => petChunk (it.subst (Spec.byDict (Spec.caseTags "EVENTNAME" "eventName" "EVENT_NAME" e))))).map Chunk.lines).flatten := by
    rw [List.map_flatten, List.map_map, List.map_map]
    congr 1
    apply List.map_congr_left
    intro it hit
    simp only [Function.comp, petChunk_lines]
    rw [← byDict_evKeys]
    have := filter_petItem (evKeys e) he (evKeys_free e) it (h0 it hit)
    rw [← this]
    apply List.map_congr_left
    intro l _
    exact filterEventName_eq e l
  rw [hfl, pairExpand_chunks]
  · rw [List.map_map]
    have : (body.map (chunkOut (pgtExpand (Table.rowsFor t s e)) ∘ fun it =>
        petChunk (it.subst (Spec.byDict (Spec.caseTags "EVENTNAME" "eventName" "EVENT_NAME" e))))) =
        (body.map (fun it => (petOut t s e (it.subst (Spec.byDict (Spec.caseTags "EVENTNAME" "eventName" "EVENT_NAME" e)))).map
          Spec.BItem.render)).map some := by
      rw [List.map_map]
      apply List.map_congr_left
      intro it hit
      simp only [Function.comp]
      exact chunkOut_pet t s e hr _ (h1 it hit)
    rw [this, concatOpt_all_some, List.map_flatten, List.map_map]
    rfl
  · intro c hc
    simp only [List.mem_map] at hc
    obtain ⟨it, hit, rfl⟩ := hc
    have e1 : cleanTag (T "<<<PER_GUARDTRANSITION_BEGIN>>>") = PGTB := by decide
    have e2 : cleanTag (T "<<<PER_GUARDTRANSITION_END>>>") = PGTE := by decide
    rw [e1, e2]
    exact (h1 it hit).1

theorem petOut_eq (t : List Table.Row) (s e : Str) (body : List Spec.PetItem) :
    (body.map (fun it => petOut t s e (it.subst (Spec.byDict (Spec.caseTags "EVENTNAME" "eventName" "EVENT_NAME" e))))).flatten =
    (body.map (fun it => match it with
      | .b i => [i.subst (Spec.byDict (Spec.caseTags "EVENTNAME" "eventName" "EVENT_NAME" e))]
      | .pgt _ b => Spec.expandPgt t s e (b.map (Spec.BItem.subst (Spec.byDict (Spec.caseTags "EVENTNAME" "eventName" "EVENT_NAME" e)))))).flatten := by
  congr 1
  apply List.map_congr_left
  intro it _
  cases it <;> rfl

/-- the grammar of a per-event block body of one state -/
structure PetOK (t : List Table.Row) (s : Str) (body : List Spec.PetItem) : Prop where
  items : ∀ it ∈ body, PetItemOK0 it
  events : ∀ e ∈ Table.eventsOf t s, ChainOK (evKeys e)
  rows : ∀ e ∈ Table.eventsOf t s, ∀ r ∈ Table.rowsFor t s e, RowOK r
  inner : ∀ e ∈ Table.eventsOf t s, ∀ it ∈ body,
    PetItemOK t s e (it.subst (Spec.byDict (Spec.caseTags "EVENTNAME" "eventName" "EVENT_NAME" e)))

/-- **per-event block of one state**: once per event of the state, in first-appearance order -/
theorem petExpand_eq (t : List Table.Row) (s : Str) (body : List Spec.PetItem) (h : PetOK t s body) :
    petExpand t s ((body.map Spec.PetItem.render).flatten) [] = some ((Spec.expandPet t s body).map Spec.BItem.render) := by
  unfold petExpand
  simp only [List.isEmpty_nil, Bool.not_true, Bool.false_eq_true, if_false]
  have : (Table.eventsOf t s).map (fun ev => perGuard t s ev ((body.map Spec.PetItem.render).flatten)) =
      ((Table.eventsOf t s).map (fun e => ((body.map (fun it => petOut t s e
        (it.subst (Spec.byDict (Spec.caseTags "EVENTNAME" "eventName" "EVENT_NAME" e))))).flatten).map Spec.BItem.render)).map some := by
    rw [List.map_map]
    apply List.map_congr_left
    intro e he
    exact perGuard_eq t s e body h.items (h.events e he) (h.rows e he) (h.inner e he)
  rw [this, concatOpt_all_some]
  unfold Spec.expandPet
  rw [List.map_flatten, List.map_map]
  congr 2
  apply List.map_congr_left
  intro e _
  simp only [Function.comp]
  rw [petOut_eq]
  rfl

/-! ### per state -/

def PstItemOK0 : Spec.PstItem → Prop
  | .b i => BItemOK i
  | .pet ws pb => Clean ws ∧ ∀ p ∈ pb, PetItemOK0 p

theorem filter_pstItem (chain : List (Str × Str)) (hc : ChainOK chain) (hf : KeysFree chain) (it : Spec.PstItem)
    (h : PstItemOK0 it) : it.render.map (applySubst (toPat chain)) = (it.subst (Spec.byDict chain)).render := by
  cases it with
  | b i => simp only [Spec.PstItem.render, Spec.PstItem.subst, List.map_cons, List.map_nil, applySubst_bitem chain hc i h]
  | pet ws pb =>
    obtain ⟨hw, hb⟩ := h
    simp only [Spec.PstItem.render, Spec.PstItem.subst, List.map_append, List.map_cons, List.map_nil, List.map_map,
      List.map_flatten]
    rw [applySubst_delim chain hc ws (T "PER_EVENTTRANSITION_BEGIN") hw (by decide) (fun kv hkv => (hf kv hkv).2.2.1),
      applySubst_delim chain hc ws (T "PER_EVENTTRANSITION_END") hw (by decide) (fun kv hkv => (hf kv hkv).2.2.2)]
    congr 3
    apply List.map_congr_left
    intro p hp
    exact filter_petItem chain hc hf p (hb p hp)

def pstChunk : Spec.PstItem → Chunk
  | .b i => .plain [i.render]
  | .pet ws pb => .block (Spec.delim ws PETB) ((pb.map Spec.PetItem.render).flatten) (Spec.delim ws PETE)

theorem pstChunk_lines (it : Spec.PstItem) : (pstChunk it).lines = it.render := by
  cases it <;> rfl

def pstOut (t : List Table.Row) (s : Str) : Spec.PstItem → List Spec.BItem
  | .b i => [i]
  | .pet _ pb => Spec.expandPet t s pb

/-- the grammar of one per-state item for one state, the state's name substituted -/
def PstItemOK (t : List Table.Row) (s : Str) (it : Spec.PstItem) : Prop :=
  (pstChunk it).OK PETB PETE ∧
  match it with
  | .b _ => True
  | .pet ws pb => Clean ws ∧ PetOK t s pb

theorem chunkOut_pst (t : List Table.Row) (s : Str) (it : Spec.PstItem) (h : PstItemOK t s it) :
    chunkOut (petExpand t s) (pstChunk it) = some ((pstOut t s it).map Spec.BItem.render) := by
  cases it with
  | b i => rfl
  | pet ws pb =>
    obtain ⟨_, hw, hb⟩ := h
    simp only [pstChunk, chunkOut, pstOut]
    rw [blockParam_delim ws PETB hw (by decide) (by decide)]
    exact petExpand_eq t s pb hb

/-- the grammar of a per-state-transition block body -/
structure PstOK (t : List Table.Row) (body : List Spec.PstItem) : Prop where
  items : ∀ it ∈ body, PstItemOK0 it
  states : ∀ s ∈ Table.perStateKeys t, ChainOK (stKeys s)
  inner : ∀ s ∈ Table.perStateKeys t, ∀ it ∈ body,
    PstItemOK t s (it.subst (Spec.byDict (Spec.caseTags "STATENAME" "stateName" "STATE_NAME" s)))

/-- **the per-state-transition block**: once per state (source states in table order, then the
    states that are only targets), inside once per event of that state, inside once per transition
    of the (state, event) pair -/
theorem pstExpand_eq (t : List Table.Row) (body : List Spec.PstItem) (h : PstOK t body) :
    pstExpand t ((body.map Spec.PstItem.render).flatten) [] = some ((Spec.expandPst t body).map Spec.BItem.render) := by
  unfold pstExpand
  simp only [List.isEmpty_nil, Bool.not_true, Bool.false_eq_true, if_false]
  have : (Table.perStateKeys t).map (fun s =>
      pairExpand (T "<<<PER_EVENTTRANSITION_BEGIN>>>") (T "<<<PER_EVENTTRANSITION_END>>>") (petExpand t s)
        (((body.map Spec.PstItem.render).flatten).map (filterStateName s))) =
      ((Table.perStateKeys t).map (fun s => ((body.map (fun it => pstOut t s
        (it.subst (Spec.byDict (Spec.caseTags "STATENAME" "stateName" "STATE_NAME" s))))).flatten).map Spec.BItem.render)).map some := by
    rw [List.map_map]
    apply List.map_congr_left
    intro s hs
    simp only [Function.comp]
    have hfl : ((body.map Spec.PstItem.render).flatten).map (filterStateName s) =
        ((body.map (fun it => pstChunk (it.subst (Spec.byDict (Spec.caseTags "STATENAME" "stateName" "STATE_NAME" s))))).map Chunk.lines).flatten := by
      rw [List.map_flatten, List.map_map, List.map_map]
      congr 1
      apply List.map_congr_left
      intro it hit
      simp only [Function.comp, pstChunk_lines]
      rw [← byDict_stKeys]
      have := filter_pstItem (stKeys s) (h.states s hs) (stKeys_free s) it (h.items it hit)
      rw [← this]
      apply List.map_congr_left
      intro l _
      exact filterStateName_eq s l
    rw [hfl, pairExpand_chunks]
    · rw [List.map_map]
      have : (body.map (chunkOut (petExpand t s) ∘ fun it =>
          pstChunk (it.subst (Spec.byDict (Spec.caseTags "STATENAME" "stateName" "STATE_NAME" s))))) =
          (body.map (fun it => (pstOut t s (it.subst (Spec.byDict (Spec.caseTags "STATENAME" "stateName" "STATE_NAME" s)))).map
            Spec.BItem.render)).map some := by
        rw [List.map_map]
        apply List.map_congr_left
        intro it hit
        simp only [Function.comp]
        exact chunkOut_pst t s _ (h.inner s hs it hit)
      rw [this, concatOpt_all_some, List.map_flatten, List.map_map]
      rfl
    · intro c hc
      simp only [List.mem_map] at hc
      obtain ⟨it, hit, rfl⟩ := hc
      have e1 : cleanTag (T "<<<PER_EVENTTRANSITION_BEGIN>>>") = PETB := by decide
      have e2 : cleanTag (T "<<<PER_EVENTTRANSITION_END>>>") = PETE := by decide
      rw [e1, e2]
      exact (h.inner s hs it hit).1
  rw [this, concatOpt_all_some]
  unfold Spec.expandPst
  rw [List.map_flatten, List.map_map]
  congr 2
  apply List.map_congr_left
  intro s _
  simp only [Function.comp]
  congr 2
  apply List.map_congr_left
  intro it _
  cases it <;> rfl

end Engine
end KojenVerif
