import KojenVerif.Lemmas.EngineUser
import KojenVerif.Lemmas.EngineEdt
/-
  The IF / ELSEIF / ELSE / ENDIF automaton of `do_user_tags` on a rendered conditional block.
-/
namespace KojenVerif
namespace Engine
open Str

theorem T_IF : T "IF " = [73, 70, 32] := by decide
theorem T_ELSEIF : T "ELSEIF " = [69, 76, 83, 69, 73, 70, 32] := by decide
theorem T_ELSE : T "ELSE" = [69, 76, 83, 69] := by decide
theorem T_ENDIF : T "ENDIF" = [69, 78, 68, 73, 70] := by decide
theorem T_kIF : T "IF" = [73, 70] := by decide
theorem T_kELSEIF : T "ELSEIF" = [69, 76, 83, 69, 73, 70] := by decide

theorem tagBodies_delim (ws body : Str) (hw : Clean ws) (hb : Clean body) :
    tagBodies (Spec.delim ws body) = [body] := by
  unfold tagBodies Spec.delim
  have e : ws ++ LLL ++ body ++ GGG ++ [NL] = ws ++ (LLL ++ body ++ GGG ++ [NL]) := by simp
  rw [e, tagBodiesAux_clean ws _ hw, tagBodiesAux_tag body [NL] hb]
  simp [tagBodiesAux, scanStep, NL, LTc]

theorem hasControlTag_delim (ws body kw : Str) (hw : Clean ws) (hb : Clean body) :
    hasControlTag (Spec.delim ws body) kw = ((splitOnce [SP] body).1 == kw) := by
  unfold hasControlTag
  rw [tagBodies_delim ws body hw hb]
  simp

theorem hasTag_delim (ws body : Str) (hw : Clean ws) (hb : Clean body) : hasTag (Spec.delim ws body) = true := by
  unfold hasTag; rw [tagBodies_delim ws body hw hb]; rfl

theorem extract_delim (ws body delim : Str) (hw : Clean ws) (hb : Clean body) :
    (extractDefaultAndTag (Spec.delim ws body) delim).2 = ((splitOnce delim body).2).getD [] := by
  unfold Spec.delim
  rw [extractDefaultAndTag_single ws body [NL] delim hw hb clean_nl]

/-! first words -/
theorem split_IF (t : Str) : splitOnce [SP] (T "IF " ++ t) = (T "IF", some t) := by
  rw [T_IF, T_kIF]; simp [splitOnce, find, isPrefixB, SP]

theorem split_ELSEIF (t : Str) : splitOnce [SP] (T "ELSEIF " ++ t) = (T "ELSEIF", some t) := by
  rw [T_ELSEIF, T_kELSEIF]; simp [splitOnce, find, isPrefixB, SP]

theorem split_ELSE : splitOnce [SP] (T "ELSE") = (T "ELSE", none) := by decide
theorem split_ENDIF : splitOnce [SP] (T "ENDIF") = (T "ENDIF", none) := by decide

theorem subTags_clean (f : Str → Option Str) (s : Str) (h : Clean s) : subTags f s = s := by
  unfold subTags
  have := subTagsAux_clean f s [] h
  simp only [List.append_nil] at this
  rw [this]; simp [subTagsAux]

/-! ### body lines -/

/-- a line of a branch body (or outside any block) as `do_user_tags` must see it: no control
    keyword as the first word of one of its tags, no FOR_BEGIN -/
structure UserPlain (i : Spec.BItem) : Prop where
  ok : match i with | .line l => LineOK l ∧ NamesOK l | .blank t => Clean t
  noIf : hasControlTag i.render (T "IF") = false
  noElseif : hasControlTag i.render (T "ELSEIF") = false
  noElse : hasControlTag i.render (T "ELSE") = false
  noEndif : hasControlTag i.render (T "ENDIF") = false
  noFor : contains (T "FOR_BEGIN") i.render = false

theorem replaceUserTags_bitem (dict : List (Str × Str)) (i : Spec.BItem) (h : UserPlain i) :
    replaceUserTags dict i.render = Spec.userText dict i := by
  cases i with
  | line l =>
    have := h.ok
    simp only at this
    simp only [Spec.BItem.render, Spec.userText, Spec.BItem.subst, Spec.bitemText, Spec.lineText]
    exact replaceUserTags_renderLine dict l this.1 this.2
  | blank t =>
    have hc : Clean t := h.ok
    simp only [Spec.BItem.render, Spec.userText, Spec.BItem.subst, Spec.bitemText]
    unfold replaceUserTags
    exact subTags_clean _ _ (hc.append clean_nl)

/-- inside a conditional block -/
theorem userTagStep_body_in (dict : List (Str × Str)) (isStr : Str → Bool) (fd : List (Str × Str)) (st : UT)
    (i : Spec.BItem) (h : UserPlain i) (hin : st.inIf = true) :
    userTagStep dict isStr fd st i.render =
      some (if st.canAppend then { st with out := st.out ++ [Spec.userText dict i] } else st) := by
  unfold userTagStep
  simp only [hin, if_true, h.noElseif, h.noElse, h.noEndif, Bool.false_and, Bool.and_false, Bool.false_eq_true,
    if_false, Bool.not_false, Bool.and_self, Bool.true_and]
  rw [replaceUserTags_bitem dict i h]

/-- outside -/
theorem userTagStep_body_out (dict : List (Str × Str)) (isStr : Str → Bool) (fd : List (Str × Str)) (st : UT)
    (i : Spec.BItem) (h : UserPlain i) (hout : st.inIf = false) :
    userTagStep dict isStr fd st i.render =
      some { st with canAppend := true, out := st.out ++ [Spec.userText dict i] } := by
  unfold userTagStep
  have hfor : hasSpecificTag i.render (T "<<<FOR_BEGIN>>>") = false := by
    unfold hasSpecificTag
    have : cleanTag (T "<<<FOR_BEGIN>>>") = T "FOR_BEGIN" := by decide
    rw [this, h.noFor]; simp
  simp only [hout, Bool.false_eq_true, if_false, hfor, h.noIf, Bool.not_false, Bool.and_true, Bool.and_false]
  by_cases ht : hasTag i.render = true
  · simp only [ht, if_true]
    rw [replaceUserTags_bitem dict i h]
  · have ht' : hasTag i.render = false := by simpa using ht
    simp only [ht', Bool.false_eq_true, if_false]
    -- without a tag the line is its own replacement
    have : Spec.userText dict i = i.render := by
      rw [← replaceUserTags_bitem dict i h]
      cases i with
      | blank t =>
        have hc : Clean t := h.ok
        unfold replaceUserTags
        simp only [Spec.BItem.render]
        exact subTags_clean _ _ (hc.append clean_nl)
      | line l =>
        have hk := h.ok
        simp only at hk
        simp only [Spec.BItem.render] at ht' ⊢
        unfold hasTag at ht'
        rw [tagBodies_renderLine l hk.1] at ht'
        unfold replaceUserTags
        rw [subTags_renderLine _ l hk.1]
        congr 1
        unfold substBodies
        have hnone : ∀ s ∈ l, segBody s = none := by
          intro s hs
          cases hb : segBody s with
          | none => rfl
          | some b =>
            have : (l.filterMap segBody) ≠ [] := by
              intro e
              have : b ∈ l.filterMap segBody := List.mem_filterMap.2 ⟨s, hs, hb⟩
              rw [e] at this; cases this
            simp [this] at ht'
        conv => rhs; rw [← List.map_id l]
        apply List.map_congr_left
        intro s hs
        rw [hnone s hs]; rfl
    rw [this]

theorem userTagFold_body_in (dict : List (Str × Str)) (isStr : Str → Bool) (fd : List (Str × Str))
    (body : List Spec.BItem) (st : UT) (h : ∀ i ∈ body, UserPlain i) (hin : st.inIf = true) (rest : List Line) :
    userTagFold dict isStr fd st (body.map Spec.BItem.render ++ rest) =
      userTagFold dict isStr fd
        (if st.canAppend then { st with out := st.out ++ body.map (Spec.userText dict) } else st) rest := by
  induction body generalizing st with
  | nil => cases st; simp
  | cons i body ih =>
    have hi := h i (by simp)
    have hb : ∀ j ∈ body, UserPlain j := fun j hj => h j (by simp [hj])
    simp only [List.map_cons, List.cons_append, userTagFold]
    rw [userTagStep_body_in dict isStr fd st i hi hin]
    by_cases hc : st.canAppend = true
    · simp only [hc, if_true]
      rw [ih _ hb (by simpa using hin)]
      simp [hc]
    · have hc' : st.canAppend = false := by simpa using hc
      simp only [hc', Bool.false_eq_true, if_false]
      rw [ih _ hb hin]
      simp [hc']

/-- the state the automaton is in after the branches -/
def afterBranches (dict : List (Str × Str)) : UT → List (Str × List Spec.BItem) → UT
  | st, [] => st
  | st, (t, body) :: rest =>
    let ca := (lookup dict t).isSome
    let st1 : UT := { st with inIf := true, canAppend := ca, canElse := !ca && st.canElse }
    afterBranches dict (if ca then { st1 with out := st1.out ++ body.map (Spec.userText dict) } else st1) rest

structure CondOK (ws : Str) (brs : List (Str × List Spec.BItem)) (els : Option (List Spec.BItem)) : Prop where
  ws : Clean ws
  tags : ∀ p ∈ brs, Clean p.1
  bodies : ∀ p ∈ brs, ∀ i ∈ p.2, UserPlain i
  els : ∀ e, els = some e → ∀ i ∈ e, UserPlain i

theorem step_elseif (dict : List (Str × Str)) (isStr : Str → Bool) (fd : List (Str × Str)) (st : UT)
    (ws t : Str) (hw : Clean ws) (ht : Clean t) (hin : st.inIf = true) :
    userTagStep dict isStr fd st (Spec.delim ws (T "ELSEIF " ++ t)) =
      some { st with canAppend := (lookup dict t).isSome, canElse := !(lookup dict t).isSome && st.canElse } := by
  have hb : Clean (T "ELSEIF " ++ t) := (by decide : Clean (T "ELSEIF ")).append ht
  unfold userTagStep
  simp only [hin, if_true, hasControlTag_delim ws _ _ hw hb, split_ELSEIF, extract_delim ws _ _ hw hb]
  have a : (T "ELSEIF" == T "ELSEIF") = true := by decide
  have b : (T "ELSEIF" == T "ELSE") = false := by decide
  have c : (T "ELSEIF" == T "ENDIF") = false := by decide
  simp [a, b, c]

theorem step_if (dict : List (Str × Str)) (isStr : Str → Bool) (fd : List (Str × Str)) (st : UT)
    (ws t : Str) (hw : Clean ws) (ht : Clean t) (hout : st.inIf = false)
    (hfor : contains (T "FOR_BEGIN") (Spec.delim ws (T "IF " ++ t)) = false) :
    userTagStep dict isStr fd st (Spec.delim ws (T "IF " ++ t)) =
      some { st with inIf := true, canAppend := (lookup dict t).isSome, canElse := !(lookup dict t).isSome && st.canElse } := by
  have hb : Clean (T "IF " ++ t) := (by decide : Clean (T "IF ")).append ht
  unfold userTagStep
  have hf : hasSpecificTag (Spec.delim ws (T "IF " ++ t)) (T "<<<FOR_BEGIN>>>") = false := by
    unfold hasSpecificTag
    have : cleanTag (T "<<<FOR_BEGIN>>>") = T "FOR_BEGIN" := by decide
    rw [this, hfor]; simp
  simp only [hout, Bool.false_eq_true, if_false, hasTag_delim ws _ hw hb, hf, hasControlTag_delim ws _ _ hw hb, split_IF,
    extract_delim ws _ _ hw hb]
  have a : (T "IF" == T "IF") = true := by decide
  simp [a]

theorem step_else (dict : List (Str × Str)) (isStr : Str → Bool) (fd : List (Str × Str)) (st : UT)
    (ws : Str) (hw : Clean ws) (hin : st.inIf = true) :
    userTagStep dict isStr fd st (Spec.delim ws (T "ELSE")) = some { st with canAppend := st.canElse } := by
  have hb : Clean (T "ELSE") := by decide
  unfold userTagStep
  simp only [hin, if_true, hasControlTag_delim ws _ _ hw hb, split_ELSE]
  have a : (T "ELSE" == T "ELSEIF") = false := by decide
  have b : (T "ELSE" == T "ELSE") = true := by decide
  have c : (T "ELSE" == T "ENDIF") = false := by decide
  simp [a, b, c]

theorem step_endif (dict : List (Str × Str)) (isStr : Str → Bool) (fd : List (Str × Str)) (st : UT)
    (ws : Str) (hw : Clean ws) (hin : st.inIf = true) :
    userTagStep dict isStr fd st (Spec.delim ws (T "ENDIF")) =
      some { st with inIf := false, canAppend := true, canElse := true } := by
  have hb : Clean (T "ENDIF") := by decide
  unfold userTagStep
  simp only [hin, if_true, hasControlTag_delim ws _ _ hw hb, split_ENDIF]
  have a : (T "ENDIF" == T "ELSEIF") = false := by decide
  have b : (T "ENDIF" == T "ELSE") = false := by decide
  have c : (T "ENDIF" == T "ENDIF") = true := by decide
  simp [a, b, c]

/-- the ELSEIF branches -/
theorem fold_branches (dict : List (Str × Str)) (isStr : Str → Bool) (fd : List (Str × Str)) (ws : Str) (hw : Clean ws)
    (brs : List (Str × List Spec.BItem)) (st : UT) (hin : st.inIf = true)
    (ht : ∀ p ∈ brs, Clean p.1) (hb : ∀ p ∈ brs, ∀ i ∈ p.2, UserPlain i) (rest : List Line) :
    userTagFold dict isStr fd st (Spec.renderBranches ws false brs ++ rest) =
      userTagFold dict isStr fd (afterBranches dict st brs) rest := by
  induction brs generalizing st with
  | nil => simp [Spec.renderBranches, afterBranches]
  | cons p brs ih =>
    obtain ⟨t, body⟩ := p
    have htt : Clean t := ht (t, body) (by simp)
    have hbb : ∀ i ∈ body, UserPlain i := hb (t, body) (by simp)
    simp only [Spec.renderBranches, Bool.false_eq_true, if_false, List.append_assoc, List.singleton_append, List.cons_append,
      List.nil_append, userTagFold]
    rw [step_elseif dict isStr fd st ws t hw htt hin]
    simp only
    rw [userTagFold_body_in dict isStr fd body _ hbb (by simpa using hin)]
    simp only [afterBranches, hin]
    apply ih
    · by_cases hc : (lookup dict t).isSome = true <;> simp [hc]
    · exact fun q hq => ht q (by simp [hq])
    · exact fun q hq => hb q (by simp [hq])

end Engine
end KojenVerif

namespace KojenVerif
namespace Engine
open Str

theorem lookup_eq (d : List (Str × Str)) (k : Str) : lookup d k = Spec.lookupS d k := rfl

def takenOf (dict : List (Str × Str)) (brs : List (Str × List Spec.BItem)) : List (Str × List Spec.BItem) :=
  brs.filter (fun p => (Spec.lookupS dict p.1).isSome)

theorem afterBranches_out (dict : List (Str × Str)) (brs : List (Str × List Spec.BItem)) (st : UT) :
    (afterBranches dict st brs).out =
      st.out ++ (((takenOf dict brs).map (·.2)).flatten).map (Spec.userText dict) := by
  induction brs generalizing st with
  | nil => simp [afterBranches, takenOf]
  | cons p brs ih =>
    obtain ⟨t, body⟩ := p
    simp only [afterBranches, lookup_eq]
    by_cases hc : (Spec.lookupS dict t).isSome = true
    · simp only [hc, if_true]
      rw [ih]
      simp [takenOf, hc, List.filter_cons]
    · have hc' : (Spec.lookupS dict t).isSome = false := by simpa using hc
      simp only [hc', Bool.false_eq_true, if_false]
      rw [ih]
      simp [takenOf, hc', List.filter_cons]

theorem afterBranches_canElse (dict : List (Str × Str)) (brs : List (Str × List Spec.BItem)) (st : UT) :
    (afterBranches dict st brs).canElse = ((takenOf dict brs).isEmpty && st.canElse) := by
  induction brs generalizing st with
  | nil => simp [afterBranches, takenOf]
  | cons p brs ih =>
    obtain ⟨t, body⟩ := p
    simp only [afterBranches, lookup_eq]
    by_cases hc : (Spec.lookupS dict t).isSome = true
    · simp only [hc, if_true]
      rw [ih]
      simp [takenOf, hc, List.filter_cons]
    · have hc' : (Spec.lookupS dict t).isSome = false := by simpa using hc
      simp only [hc', Bool.false_eq_true, if_false]
      rw [ih]
      simp [takenOf, hc', List.filter_cons]

theorem afterBranches_inIf (dict : List (Str × Str)) (brs : List (Str × List Spec.BItem)) (st : UT)
    (h : st.inIf = true ∨ brs ≠ []) : (afterBranches dict st brs).inIf = true := by
  induction brs generalizing st with
  | nil =>
    rcases h with h | h
    · simpa [afterBranches] using h
    · exact absurd rfl h
  | cons p brs ih =>
    obtain ⟨t, body⟩ := p
    simp only [afterBranches]
    apply ih
    left
    by_cases hc : (lookup dict t).isSome = true <;> simp [hc]

/-- **the whole conditional block** as `do_user_tags` processes it: the branches whose tag is
    assigned, in order; the ELSE branch exactly when there is none; every emitted line through
    the user-tag rule; the automaton is back outside afterwards. -/
theorem cond_block (dict : List (Str × Str)) (isStr : Str → Bool) (fd : List (Str × Str))
    (ws : Str) (brs : List (Str × List Spec.BItem)) (els : Option (List Spec.BItem)) (st : UT)
    (hne : brs ≠ []) (hok : CondOK ws brs els) (hout : st.inIf = false) (hce : st.canElse = true)
    (hfor : ∀ p, brs.head? = some p → contains (T "FOR_BEGIN") (Spec.delim ws (T "IF " ++ p.1)) = false)
    (rest : List Line) :
    userTagFold dict isStr fd st ((Spec.Item.cond ws brs els).render ++ rest) =
      userTagFold dict isStr fd
        { inIf := false, canElse := true, canAppend := true,
          out := st.out ++ (Spec.expandCond dict brs els).map (Spec.userText dict) } rest := by
  cases brs with
  | nil => exact absurd rfl hne
  | cons p brs =>
    obtain ⟨t0, body0⟩ := p
    have ht0 : Clean t0 := hok.tags (t0, body0) (by simp)
    have hb0 : ∀ i ∈ body0, UserPlain i := hok.bodies (t0, body0) (by simp)
    have htr : ∀ q ∈ brs, Clean q.1 := fun q hq => hok.tags q (by simp [hq])
    have hbr : ∀ q ∈ brs, ∀ i ∈ q.2, UserPlain i := fun q hq => hok.bodies q (by simp [hq])
    simp only [Spec.Item.render, Spec.renderBranches, if_true, List.append_assoc, List.singleton_append, List.cons_append,
      List.nil_append, userTagFold]
    rw [step_if dict isStr fd st ws t0 hok.ws ht0 hout (hfor (t0, body0) rfl)]
    simp only
    rw [userTagFold_body_in dict isStr fd body0 _ hb0 rfl]
    -- the state after the first branch is `afterBranches … [(t0, body0)]`
    have e1 : (if ({ st with inIf := true, canAppend := (lookup dict t0).isSome, canElse := !(lookup dict t0).isSome && st.canElse } : UT).canAppend = true
          then { ({ st with inIf := true, canAppend := (lookup dict t0).isSome, canElse := !(lookup dict t0).isSome && st.canElse } : UT) with
                 out := st.out ++ body0.map (Spec.userText dict) }
          else ({ st with inIf := true, canAppend := (lookup dict t0).isSome, canElse := !(lookup dict t0).isSome && st.canElse } : UT))
        = afterBranches dict st [(t0, body0)] := by
      simp [afterBranches]
    rw [e1]
    have hin1 : (afterBranches dict st [(t0, body0)]).inIf = true := afterBranches_inIf dict _ st (Or.inr (by simp))
    rw [fold_branches dict isStr fd ws hok.ws brs _ hin1 htr hbr]
    have e2 : afterBranches dict (afterBranches dict st [(t0, body0)]) brs = afterBranches dict st ((t0, body0) :: brs) := by
      simp [afterBranches]
    rw [e2]
    -- abbreviations
    generalize hS : afterBranches dict st ((t0, body0) :: brs) = S
    have hSin : S.inIf = true := by rw [← hS]; exact afterBranches_inIf dict _ st (Or.inr (by simp))
    have hSout := afterBranches_out dict ((t0, body0) :: brs) st
    have hSce := afterBranches_canElse dict ((t0, body0) :: brs) st
    rw [hS] at hSout hSce
    rw [hce, Bool.and_true] at hSce
    cases els with
    | none =>
      simp only [List.nil_append, List.cons_append, userTagFold]
      rw [step_endif dict isStr fd S ws hok.ws hSin]
      congr 1
      simp only [UT.mk.injEq, true_and]
      rw [hSout]
      unfold Spec.expandCond
      simp only [takenOf] at hSce hSout ⊢
      by_cases hte : (List.filter (fun p => (Spec.lookupS dict p.1).isSome) ((t0, body0) :: brs)).isEmpty = true
      · simp only [hte, if_true, List.map_nil, List.append_nil]
        have : List.filter (fun p => (Spec.lookupS dict p.1).isSome) ((t0, body0) :: brs) = [] := by simpa using hte
        simp [this]
      · simp [hte]
    | some e =>
      have he : ∀ i ∈ e, UserPlain i := hok.els e rfl
      simp only [List.cons_append, List.nil_append, List.append_assoc, userTagFold]
      rw [step_else dict isStr fd S ws hok.ws hSin]
      simp only
      rw [userTagFold_body_in dict isStr fd e _ he (by simpa using hSin)]
      simp only [userTagFold]
      have hin2 : ∀ (U : UT), U.inIf = true →
          userTagStep dict isStr fd U (Spec.delim ws (T "ENDIF")) = some { U with inIf := false, canAppend := true, canElse := true } :=
        fun U hU => step_endif dict isStr fd U ws hok.ws hU
      by_cases hte : (takenOf dict ((t0, body0) :: brs)).isEmpty = true
      · have hSce' : S.canElse = true := by rw [hSce, hte]
        simp only [hSce', if_true]
        rw [hin2 _ (by simpa using hSin)]
        congr 1
        simp only [UT.mk.injEq, true_and]
        rw [hSout]
        unfold Spec.expandCond
        simp only [takenOf] at hte ⊢
        have : List.filter (fun p => (Spec.lookupS dict p.1).isSome) ((t0, body0) :: brs) = [] := by simpa using hte
        simp [this]
      · have hte' : (takenOf dict ((t0, body0) :: brs)).isEmpty = false := by simpa using hte
        have hSce' : S.canElse = false := by rw [hSce, hte']
        simp only [hSce', Bool.false_eq_true, if_false]
        rw [hin2 _ (by simpa using hSin)]
        congr 1
        simp only [UT.mk.injEq, true_and]
        rw [hSout]
        unfold Spec.expandCond
        simp only [takenOf] at hte' ⊢
        simp [hte']

end Engine
end KojenVerif
