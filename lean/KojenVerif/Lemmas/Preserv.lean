import KojenVerif.Model.Preserv
/-
  Helper lemmas for the preservation algebra (core Lean only).
-/
namespace KojenVerif

section
variable {L K : Type} [DecidableEq K]

namespace Tags

@[simp] theorem get?_nil (k : K) : Tags.get? ([] : Tags L K) k = none := rfl

theorem get?_set (t : Tags L K) (k k' : K) (b : List L) :
    (t.set k b).get? k' = if k = k' then some b else t.get? k' := by
  induction t with
  | nil => simp [set, get?]
  | cons p t ih =>
    obtain ⟨k0, b0⟩ := p
    by_cases h0 : k0 = k
    · subst h0
      by_cases h1 : k0 = k' <;> simp [set, get?, h1]
    · by_cases h1 : k0 = k'
      · subst h1
        have : ¬ k = k0 := fun h => h0 h.symm
        simp [set, get?, h0, this]
      · simp [set, get?, h0, h1, ih]

theorem get?_eq_none_iff (t : Tags L K) (k : K) : t.get? k = none ↔ k ∉ t.keys := by
  induction t with
  | nil => simp [get?, keys]
  | cons p t ih =>
    obtain ⟨k0, b0⟩ := p
    by_cases h : k0 = k
    · subst h; simp [get?, keys]
    · have h' : ¬ k = k0 := fun e => h e.symm
      simp [get?, keys, h, h'] at ih ⊢
      exact ih

theorem get?_isSome_iff (t : Tags L K) (k : K) : (t.get? k).isSome ↔ k ∈ t.keys := by
  rcases h : t.get? k with _ | b
  · simp [(get?_eq_none_iff t k).1 h]
  · simp only [Option.isSome_some, true_iff]
    apply Classical.byContradiction
    intro hc
    rw [(get?_eq_none_iff t k).2 hc] at h
    cases h

/-- folding dict assignments: with pairwise distinct new keys, the last table wins -/
theorem get?_foldl_set (kbs : Tags L K) (acc : Tags L K) (k : K)
    (hnd : kbs.keys.Nodup) :
    (kbs.foldl (fun (a : Tags L K) kb => a.set kb.1 kb.2) acc).get? k =
      match kbs.get? k with
      | some b => some b
      | none => acc.get? k := by
  induction kbs generalizing acc with
  | nil => simp [get?]
  | cons p kbs ih =>
    obtain ⟨k0, b0⟩ := p
    simp only [keys, List.map_cons, List.nodup_cons] at hnd
    obtain ⟨hnotin, hnd'⟩ := hnd
    simp only [List.foldl_cons]
    rw [ih _ hnd']
    by_cases h : k0 = k
    · subst h
      have : Tags.get? kbs k0 = none := (get?_eq_none_iff kbs k0).2 hnotin
      simp [this, get?, get?_set]
    · simp [get?, h, get?_set]

end Tags

/-! ### collect over a rendered document -/

theorem collectAux_body (c : Cfg L K) (b : List L) (hb : ∀ x ∈ b, c.isTag x = false)
    (rest : List L) (k : K) (body : List L) (acc : Tags L K) :
    collectAux c (b ++ rest) (some (k, body)) acc
      = collectAux c rest (some (k, b.reverse ++ body)) acc := by
  induction b generalizing body with
  | nil => simp
  | cons x b ih =>
    have hx : c.isTag x = false := hb x (by simp)
    have hb' : ∀ y ∈ b, c.isTag y = false := fun y hy => hb y (by simp [hy])
    simp [collectAux, hx, ih hb']

theorem collectAux_render (c : Cfg L K) (D : List (Item L))
    (h : ∀ it ∈ D, it.okOld c) (rest : List L) (acc : Tags L K) :
    collectAux c (render D ++ rest) none acc
      = collectAux c rest none ((blocksOf c D).foldl (fun (a : Tags L K) kb => a.set kb.1 kb.2) acc) := by
  induction D generalizing acc with
  | nil => simp [render, blocksOf]
  | cons it D ih =>
    have hD : ∀ it ∈ D, it.okOld c := fun x hx => h x (by simp [hx])
    have hit := h it (by simp)
    cases it with
    | text l =>
      simp only [Item.okOld] at hit
      simp [render, Item.render, blocksOf, collectAux, hit, ih hD]
    | block o cl b =>
      simp only [Item.okOld] at hit
      obtain ⟨ho, hcl, hb⟩ := hit
      simp only [render, Item.render, blocksOf, List.cons_append, List.append_assoc,
        List.foldl_cons]
      simp only [collectAux, ho, if_true]
      rw [collectAux_body c b hb]
      simp [collectAux, hcl, ih hD]

theorem collect_render (c : Cfg L K) (D : List (Item L)) (h : ∀ it ∈ D, it.okOld c) :
    collect c (render D) = (blocksOf c D).foldl (fun (a : Tags L K) kb => a.set kb.1 kb.2) ([] : Tags L K) := by
  have := collectAux_render c D h [] []
  simpa [collect, collectAux] using this

/-- with pairwise distinct block keys the collected table answers like the block list -/
theorem collect_get? (c : Cfg L K) (D : List (Item L)) (h : ∀ it ∈ D, it.okOld c)
    (hnd : (blocksOf c D).keys.Nodup) (k : K) :
    (collect c (render D)).get? k = (blocksOf c D).get? k := by
  rw [collect_render c D h, Tags.get?_foldl_set _ _ _ hnd]
  cases (blocksOf c D).get? k <;> simp

/-! ### emplace over a rendered document -/

theorem Cfg.lookup_of_not_tag (c : Cfg L K) (t : Tags L K) (l : L) (h : c.isTag l = false) :
    c.lookup t l = none := by simp [Cfg.lookup, h]

theorem Cfg.lookup_of_tag (c : Cfg L K) (t : Tags L K) (l : L) (h : c.isTag l = true) :
    c.lookup t l = Tags.get? t (c.key l) := by simp [Cfg.lookup, h]

theorem emplaceAux_body_none (c : Cfg L K) (t : Tags L K) (r : Bool) (b : List L)
    (hb : ∀ x ∈ b, c.lookup t x = none) (rest : List L) :
    emplaceAux c t r (b ++ rest) none = b ++ emplaceAux c t r rest none := by
  induction b with
  | nil => simp
  | cons x b ih =>
    have hx := hb x (by simp)
    have hb' : ∀ y ∈ b, c.lookup t y = none := fun y hy => hb y (by simp [hy])
    simp [emplaceAux, hx, ih hb']

theorem emplaceAux_body_some (c : Cfg L K) (t : Tags L K) (b : List L)
    (hb : ∀ x ∈ b, c.lookup t x = none) (rest : List L) (tl : L) :
    emplaceAux c t false (b ++ rest) (some tl) = b ++ emplaceAux c t false rest (some tl) := by
  induction b with
  | nil => simp
  | cons x b ih =>
    have hx := hb x (by simp)
    have hb' : ∀ y ∈ b, c.lookup t y = none := fun y hy => hb y (by simp [hy])
    simp [emplaceAux, hx, ih hb']

theorem emplaceAux_render (c : Cfg L K) (t : Tags L K) (D : List (Item L))
    (h : ∀ it ∈ D, it.okNew c t) (rest : List L) :
    emplaceAux c t false (render D ++ rest) none
      = render (D.map (Item.fill c t)) ++ emplaceAux c t false rest none := by
  induction D with
  | nil => simp [render]
  | cons it D ih =>
    have hD : ∀ it ∈ D, it.okNew c t := fun x hx => h x (by simp [hx])
    have hit := h it (by simp)
    cases it with
    | text l =>
      simp only [Item.okNew] at hit
      simp [render, Item.render, Item.fill, emplaceAux, hit, ih hD]
    | block o cl b =>
      simp only [Item.okNew] at hit
      obtain ⟨hto, htc, hk, hb⟩ := hit
      have hlo := Cfg.lookup_of_tag c t o hto
      have hlc := Cfg.lookup_of_tag c t cl htc
      simp only [render, Item.render, List.map_cons, List.cons_append, List.append_assoc]
      cases hg : Tags.get? t (c.key o) with
      | none =>
        have hcl : c.lookup t cl = none := by rw [hlc, hk]; exact hg
        rw [hg] at hlo
        simp only [emplaceAux, hlo, Item.fill, hg]
        rw [emplaceAux_body_none c t false b hb]
        simp [emplaceAux, hcl, ih hD]
      | some pb =>
        have hcl : c.lookup t cl = some pb := by rw [hlc, hk]; exact hg
        rw [hg] at hlo
        simp only [emplaceAux, hlo, Item.fill, hg]
        rw [emplaceAux_body_some c t b hb]
        simp [emplaceAux, hcl, ih hD]

theorem emplace_render (c : Cfg L K) (t : Tags L K) (D : List (Item L))
    (h : ∀ it ∈ D, it.okNew c t) :
    emplace c t (render D) = render (D.map (Item.fill c t)) := by
  have := emplaceAux_render c t D h []
  simpa [emplace, emplaceAux] using this

/-! ### used keys over a rendered document -/

theorem usedAux_body (c : Cfg L K) (t : Tags L K) (b : List L)
    (hb : ∀ x ∈ b, c.lookup t x = none) (rest : List L) (st : Bool) :
    usedAux c t (b ++ rest) st = usedAux c t rest st := by
  induction b with
  | nil => simp
  | cons x b ih =>
    have hx := hb x (by simp)
    have hb' : ∀ y ∈ b, c.lookup t y = none := fun y hy => hb y (by simp [hy])
    cases st <;> simp [usedAux, hx, ih hb']

/-- the keys of the blocks of `D` that the table knows, in document order -/
def knownBlockKeys (c : Cfg L K) (t : Tags L K) (D : List (Item L)) : List K :=
  ((blocksOf c D).keys).filter (fun k => (t.get? k).isSome)

theorem usedAux_render (c : Cfg L K) (t : Tags L K) (D : List (Item L))
    (h : ∀ it ∈ D, it.okNew c t) (rest : List L) :
    usedAux c t (render D ++ rest) false = knownBlockKeys c t D ++ usedAux c t rest false := by
  induction D with
  | nil => simp [render, knownBlockKeys, blocksOf, Tags.keys]
  | cons it D ih =>
    have hD : ∀ it ∈ D, it.okNew c t := fun x hx => h x (by simp [hx])
    have hit := h it (by simp)
    cases it with
    | text l =>
      simp only [Item.okNew] at hit
      simp only [knownBlockKeys] at ih
      simp [render, Item.render, usedAux, hit, ih hD, knownBlockKeys, blocksOf]
    | block o cl b =>
      simp only [Item.okNew] at hit
      obtain ⟨hto, htc, hk, hb⟩ := hit
      have hlo := Cfg.lookup_of_tag c t o hto
      have hlc := Cfg.lookup_of_tag c t cl htc
      simp only [knownBlockKeys] at ih
      simp only [render, Item.render, List.cons_append, List.append_assoc]
      cases hg : Tags.get? t (c.key o) with
      | none =>
        have hcl : c.lookup t cl = none := by rw [hlc, hk]; exact hg
        rw [hg] at hlo
        simp only [usedAux, hlo]
        rw [usedAux_body c t b hb]
        simp [usedAux, hcl, ih hD, knownBlockKeys, blocksOf, Tags.keys, hg]
      | some pb =>
        have hcl : c.lookup t cl = some pb := by rw [hlc, hk]; exact hg
        rw [hg] at hlo
        simp only [usedAux, hlo]
        rw [usedAux_body c t b hb]
        simp [usedAux, hcl, ih hD, knownBlockKeys, blocksOf, Tags.keys, hg]

theorem used_render (c : Cfg L K) (t : Tags L K) (D : List (Item L))
    (h : ∀ it ∈ D, it.okNew c t) :
    used c t (render D) = knownBlockKeys c t D := by
  have := usedAux_render c t D h []
  simpa [used, usedAux] using this

end
end KojenVerif
