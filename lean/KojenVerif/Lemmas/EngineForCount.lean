import KojenVerif.Lemmas.EngineForItems
import KojenVerif.Lemmas.EngineSecond
/-
  FOR over a count: `<<<FOR_BEGIN=3>>>` is the loop over `_0_, _1_, _2_`; and the values of any FOR list are
  free of angle brackets as soon as the parameter is.
-/
namespace KojenVerif
namespace Engine
open Str

/-! ### pieces of strings are made of the string's characters -/

theorem mem_lstripBy (p : Nat → Bool) (s : Str) : ∀ c ∈ lstripBy p s, c ∈ s := by
  induction s with
  | nil => intro c h; cases h
  | cons a s ih =>
    intro c h
    simp only [lstripBy] at h
    split at h
    · exact List.mem_cons_of_mem _ (ih c h)
    · exact h

theorem mem_rstripBy (p : Nat → Bool) (s : Str) : ∀ c ∈ rstripBy p s, c ∈ s := by
  intro c h
  unfold rstripBy at h
  have := mem_lstripBy p s.reverse c (List.mem_reverse.mp h)
  exact List.mem_reverse.mp this

theorem mem_strip (s : Str) : ∀ c ∈ strip s, c ∈ s := by
  intro c h
  unfold strip stripBy at h
  exact mem_lstripBy _ _ c (mem_rstripBy _ _ c h)

theorem clean_strip (s : Str) (h : Clean s) : Clean (strip s) := fun c hc => h c (mem_strip s c hc)

theorem clean_camelSmall (s : Str) (h : Clean s) : Clean (camelSmall s) := by
  cases s with
  | nil => exact h
  | cons c cs =>
    intro x hx
    simp only [camelSmall, List.mem_cons] at hx
    rcases hx with e | e
    · subst e
      have hc := h c (by simp)
      unfold lowerC
      split <;> constructor <;> omega
    · exact h x (by simp [e])

theorem mem_splitAllAux (sep : Str) (k : Nat) (s cur : Str) :
    ∀ it ∈ splitAllAux sep k s cur, ∀ c ∈ it, c ∈ s ∨ c ∈ cur := by
  induction s generalizing k cur with
  | nil =>
    intro it hit c hc
    simp only [splitAllAux, List.mem_singleton] at hit
    subst hit
    exact Or.inr (List.mem_reverse.mp hc)
  | cons a s ih =>
    intro it hit c hc
    cases k with
    | succ k =>
      simp only [splitAllAux] at hit
      rcases ih k cur it hit c hc with h | h
      · exact Or.inl (List.mem_cons_of_mem _ h)
      · exact Or.inr h
    | zero =>
      simp only [splitAllAux] at hit
      split at hit
      · simp only [List.mem_cons] at hit
        rcases hit with e | e
        · subst e; exact Or.inr (List.mem_reverse.mp hc)
        · rcases ih _ [] it e c hc with h | h
          · exact Or.inl (List.mem_cons_of_mem _ h)
          · cases h
      · rcases ih 0 (a :: cur) it hit c hc with h | h
        · exact Or.inl (List.mem_cons_of_mem _ h)
        · simp only [List.mem_cons] at h
          rcases h with e | e
          · subst e; exact Or.inl (by simp)
          · exact Or.inr e

theorem mem_splitAll (sep s : Str) : ∀ it ∈ splitAll sep s, ∀ c ∈ it, c ∈ s := by
  intro it hit c hc
  unfold splitAll at hit
  split at hit
  · simp only [List.mem_singleton] at hit; subst hit; exact hc
  · rcases mem_splitAllAux sep 0 s [] it hit c hc with h | h
    · exact h
    · cases h

/-- **the values of a FOR list need no separate hypothesis** -/
theorem forValues_of_clean (raw : Str) (h : Clean raw) : ForValuesOK raw := by
  intro it hit
  have hc : Clean it := by
    intro c hc
    unfold forItems at hit
    have h1 := mem_splitAll _ _ it hit c hc
    have h2 := mem_rstripBy _ _ c h1
    have h3 := mem_lstripBy _ _ c h2
    exact h c (mem_strip raw c h3)
  exact ⟨clean_strip it hc, clean_camelSmall _ (clean_strip it hc)⟩

/-! ### splitting what was joined -/

def NoComma (s : Str) : Prop := ∀ c ∈ s, c ≠ 44

theorem splitAux_pass (a : Str) (ha : NoComma a) (rest cur : Str) :
    splitAllAux COMMA 0 (a ++ rest) cur = splitAllAux COMMA 0 rest (a.reverse ++ cur) := by
  induction a generalizing cur with
  | nil => rfl
  | cons c a ih =>
    have hc : c ≠ 44 := ha c (by simp)
    have hp : isPrefixB COMMA (c :: (a ++ rest)) = false := by
      simp [COMMA, isPrefixB]; exact fun e => hc e.symm
    simp only [List.cons_append, splitAllAux, hp, Bool.false_eq_true, if_false]
    rw [ih (fun x hx => ha x (by simp [hx]))]
    simp

theorem splitAux_comma (rest cur : Str) :
    splitAllAux COMMA 0 (44 :: rest) cur = cur.reverse :: splitAllAux COMMA 0 rest [] := by
  simp [splitAllAux, COMMA, isPrefixB]

/-- items joined by single commas -/
def joinC : List Str → Str
  | [] => []
  | [a] => a
  | a :: b :: r => a ++ 44 :: joinC (b :: r)

theorem splitAux_join (a : Str) (r : List Str) (h : ∀ x ∈ a :: r, NoComma x) (cur : Str) :
    splitAllAux COMMA 0 (joinC (a :: r)) cur = (cur.reverse ++ a) :: r := by
  induction r generalizing a cur with
  | nil =>
    simp only [joinC]
    have := splitAux_pass a (h a (by simp)) [] cur
    simp only [List.append_nil] at this
    rw [this]
    simp [splitAllAux]
  | cons b r ih =>
    simp only [joinC]
    rw [splitAux_pass a (h a (by simp)), splitAux_comma, ih b (fun x hx => h x (by simp [hx]))]
    simp

theorem splitAll_join (items : List Str) (hne : items ≠ []) (h : ∀ x ∈ items, NoComma x) :
    splitAll COMMA (joinC items) = items := by
  cases items with
  | nil => exact absurd rfl hne
  | cons a r =>
    unfold splitAll
    have : COMMA.isEmpty = false := rfl
    simp only [this, Bool.false_eq_true, if_false]
    rw [splitAux_join a r h []]
    simp

theorem flatten_commas (items : List Str) (hne : items ≠ []) :
    (items.map (fun a => a ++ COMMA)).flatten = joinC items ++ [44] := by
  induction items with
  | nil => exact absurd rfl hne
  | cons a r ih =>
    cases r with
    | nil => simp [joinC, COMMA]
    | cons b r' =>
      have := ih (by simp)
      simp only [List.map_cons, List.flatten_cons] at this ⊢
      rw [this]
      simp [joinC, COMMA]

/-! ### the count -/

/-- the items a count stands for -/
def cnt (n : Nat) : List Str := (List.range n).map (fun i => [US] ++ natToStr i ++ [US])

def csvOf (n : Nat) : Str := ((List.range n).map (fun i => [US] ++ natToStr i ++ [US] ++ COMMA)).flatten

theorem csvOf_eq (n : Nat) (hn : 0 < n) : csvOf n = joinC (cnt n) ++ [44] := by
  unfold csvOf cnt
  have : (List.range n).map (fun i => [US] ++ natToStr i ++ [US] ++ COMMA) =
      ((List.range n).map (fun i => [US] ++ natToStr i ++ [US])).map (fun a => a ++ COMMA) := by
    rw [List.map_map]; rfl
  rw [this, flatten_commas]
  intro e
  have := congrArg List.length e
  simp at this
  omega

theorem cnt_shape (n : Nat) : ∀ x ∈ cnt n, ∃ m, x = US :: (m ++ [US]) ∧ NoComma m := by
  intro x hx
  simp only [cnt, List.mem_map] at hx
  obtain ⟨i, _, rfl⟩ := hx
  refine ⟨natToStr i, by simp, ?_⟩
  intro c hc
  have := natToStrAux_digits (i + 1) i [] (fun _ h => by cases h) c hc
  omega

theorem cnt_nocomma (n : Nat) : ∀ x ∈ cnt n, NoComma x := by
  intro x hx
  obtain ⟨m, rfl, hm⟩ := cnt_shape n x hx
  intro c hc
  simp only [List.mem_cons, List.mem_append, List.not_mem_nil, or_false] at hc
  rcases hc with e | e | e
  · subst e; decide
  · exact hm c e
  · subst e; decide

/-- a joined list of `_…_` items starts and ends with an underscore -/
theorem joinC_shape (items : List Str) (hne : items ≠ []) (h : ∀ x ∈ items, ∃ m, x = US :: (m ++ [US])) :
    ∃ mid, joinC items = US :: (mid ++ [US]) := by
  induction items with
  | nil => exact absurd rfl hne
  | cons a r ih =>
    obtain ⟨m, rfl⟩ := h a (by simp)
    cases r with
    | nil => exact ⟨m, rfl⟩
    | cons b r' =>
      obtain ⟨mid, e⟩ := ih (by simp) (fun x hx => h x (by simp [hx]))
      refine ⟨m ++ [US] ++ 44 :: US :: mid, ?_⟩
      simp only [joinC] at e ⊢
      rw [e]
      simp

theorem lstripBy_head (p : Nat → Bool) (c : Nat) (s : Str) (h : p c = false) : lstripBy p (c :: s) = c :: s := by
  simp [lstripBy, h]

theorem rstripBy_last (p : Nat → Bool) (s : Str) (c : Nat) (h : p c = false) : rstripBy p (s ++ [c]) = s ++ [c] := by
  unfold rstripBy
  simp only [List.reverse_append, List.reverse_cons, List.reverse_nil, List.nil_append, List.singleton_append]
  rw [lstripBy_head p c _ h]
  simp

theorem rstripBy_one (p : Nat → Bool) (s : Str) (c d : Nat) (hc : p c = false) (hd : p d = true) :
    rstripBy p (s ++ [c] ++ [d]) = s ++ [c] := by
  unfold rstripBy
  have : (s ++ [c] ++ [d]).reverse = d :: c :: s.reverse := by simp
  rw [this]
  simp only [lstripBy, hd, if_true, hc, Bool.false_eq_true, if_false]
  simp

theorem forItems_csvOf (n : Nat) (hn : 0 < n) : forItems (csvOf n) = cnt n := by
  have hne : cnt n ≠ [] := by
    intro e
    have := congrArg List.length e
    simp [cnt] at this
    omega
  obtain ⟨mid, hj⟩ := joinC_shape (cnt n) hne (fun x hx => by obtain ⟨m, e, _⟩ := cnt_shape n x hx; exact ⟨m, e⟩)
  unfold forItems
  rw [csvOf_eq n hn, hj]
  have e1 : strip (US :: (mid ++ [US]) ++ [44]) = US :: (mid ++ [US]) ++ [44] := by
    unfold strip stripBy
    have : lstripBy isWs (US :: (mid ++ [US]) ++ [44]) = US :: (mid ++ [US]) ++ [44] := lstripBy_head _ _ _ (by decide)
    rw [this]
    exact rstripBy_last isWs _ 44 (by decide)
  rw [e1]
  have e2 : lstripChars COMMA (US :: (mid ++ [US]) ++ [44]) = US :: (mid ++ [US]) ++ [44] := by
    unfold lstripChars
    exact lstripBy_head _ _ _ (by decide)
  rw [e2]
  have e3 : rstripChars COMMA (US :: (mid ++ [US]) ++ [44]) = US :: (mid ++ [US]) := by
    unfold rstripChars
    have : US :: (mid ++ [US]) ++ [44] = (US :: mid) ++ [US] ++ [44] := by simp
    rw [this, rstripBy_one _ _ US 44 (by decide) (by decide)]
    simp
  rw [e3, ← hj]
  exact splitAll_join (cnt n) hne (cnt_nocomma n)

theorem strip_cnt (n : Nat) : (cnt n).map strip = cnt n := by
  conv => rhs; rw [← List.map_id (cnt n)]
  apply List.map_congr_left
  intro x hx
  obtain ⟨m, rfl, _⟩ := cnt_shape n x hx
  unfold strip stripBy
  have : lstripBy isWs (US :: (m ++ [US])) = US :: (m ++ [US]) := lstripBy_head _ _ _ (by decide)
  rw [this]
  have : US :: (m ++ [US]) = (US :: m) ++ [US] := by simp
  rw [this]
  exact rstripBy_last isWs _ US (by decide)

theorem csvOf_clean (n : Nat) : Clean (csvOf n) := by
  intro c hc
  simp only [csvOf, List.mem_flatten, List.mem_map] at hc
  obtain ⟨l, ⟨i, _, rfl⟩, hcl⟩ := hc
  simp only [List.mem_append, List.mem_singleton, COMMA] at hcl
  rcases hcl with ((e | e) | e) | e
  · subst e; decide
  · exact natToStr_clean i c e
  · subst e; decide
  · subst e; decide

/-- the grammar of a FOR block over a count -/
structure CountOK (ws raw : Str) (body : List Spec.BItem) : Prop where
  wsOK : Clean ws
  rawOK : Clean raw
  nocsv : (find COMMA raw).isSome = false
  num : isNumeric (strip raw) = true
  items : ∀ i ∈ body, ForItemOK i
  noboth : ∀ i ∈ body, ¬ (Spec.hasTagNamed FIRSTk i = true ∧ Spec.hasTagNamed LASTk i = true)

/-- **a FOR block over a count `n` is the loop over `_0_ … _n-1_`; zero repeats nothing** -/
theorem forExpand_count (fd ut : List (Str × Str)) (ws raw : Str) (body : List Spec.BItem) (h : CountOK ws raw body) :
    forExpand (body.map Spec.BItem.render) raw =
      (Spec.expandLoop fd ut (.count raw) body).map (fun bs => bs.map Spec.BItem.render) := by
  have hne : raw ≠ [] := by
    intro e
    have := h.num
    rw [e] at this
    simp [strip, stripBy, rstripBy, lstripBy, isNumeric] at this
  rw [C17_count_aux body raw h.nocsv h.num hne]
  have hsp : Spec.forItems fd (.count raw) ut = some (cnt (toNat (strip raw))) := by
    simp only [Spec.forItems, h.nocsv, h.num, Bool.false_and, Bool.false_eq_true, if_false, Bool.not_false, Bool.and_self, if_true]
    rfl
  by_cases hn : toNat (strip raw) > 0
  · simp only [hn, if_true]
    have hcsv : ((List.range (toNat (strip raw))).map (fun i => [US] ++ natToStr i ++ [US] ++ COMMA)).flatten = csvOf (toNat (strip raw)) := rfl
    rw [hcsv, forProcess_items (csvOf _) body h.items h.noboth (forValues_of_clean _ (csvOf_clean _)),
      forItems_csvOf _ hn, strip_cnt]
    have hne' : cnt (toNat (strip raw)) ≠ [] := by
      intro e
      have := congrArg List.length e
      simp [cnt] at this
      omega
    rw [expandLoop_eq fd ut (.count raw) body _ hsp hne']
    rfl
  · simp only [hn, if_false]
    have h0 : toNat (strip raw) = 0 := by omega
    unfold Spec.expandLoop
    rw [hsp, h0]
    rfl
where
  C17_count_aux (body : List Spec.BItem) (raw : Str) (h1 : (find COMMA raw).isSome = false) (h2 : isNumeric (strip raw) = true)
      (hne : raw ≠ []) :
      forExpand (body.map Spec.BItem.render) raw =
        if toNat (strip raw) > 0 then
          some (forProcess (((List.range (toNat (strip raw))).map (fun i => [US] ++ natToStr i ++ [US] ++ COMMA)).flatten)
            (body.map Spec.BItem.render))
        else some [] := by
    unfold forExpand
    have : raw.isEmpty = false := by cases raw <;> simp_all
    simp [this, h1, h2]

theorem expandLoop_count_some (fd ut : List (Str × Str)) (ws raw : Str) (body : List Spec.BItem) (h : CountOK ws raw body) :
    ∃ bs, Spec.expandLoop fd ut (.count raw) body = some bs := by
  have hsp : Spec.forItems fd (.count raw) ut = some (cnt (toNat (strip raw))) := by
    simp only [Spec.forItems, h.nocsv, h.num, Bool.false_and, Bool.false_eq_true, if_false, Bool.not_false, Bool.and_self, if_true]
    rfl
  unfold Spec.expandLoop
  rw [hsp]
  simp only
  split
  · exact ⟨_, rfl⟩
  · exact ⟨_, rfl⟩

/-! ### `do_for` over a whole file -/

def FORB : Str := T "FOR_BEGIN"
def FORE : Str := T "FOR_END"

def forChunk : Spec.Item → Chunk
  | .loop ws p body => .block (Spec.delim ws (T "FOR_BEGIN=" ++ p.render)) (body.map Spec.BItem.render) (Spec.delim ws FORE)
  | it => .plain it.render

theorem forChunk_lines (it : Spec.Item) : (forChunk it).lines = it.render := by
  cases it <;> rfl

/-- what `do_for` leaves of an item: a loop over a literal list or a count becomes the lines of the
    specification's loop -/
def forOut : Spec.Item → List Spec.Item
  | .loop _ p body => (match Spec.expandLoop [] [] p body with | some bs => bs.map .b | none => [])
  | it => [it]

/-- the grammar of an item for `do_for`: lines that are no FOR delimiter, and loops over literal lists / counts -/
def ForFileItemOK (it : Spec.Item) : Prop :=
  (forChunk it).OK FORB FORE ∧
  match it with
  | .loop ws (.list raw) body => LoopOK ws raw body
  | .loop ws (.count raw) body => CountOK ws raw body
  | .loop _ _ _ => False
  | _ => True

theorem chunkOut_for (it : Spec.Item) (h : ForFileItemOK it) :
    chunkOut forExpand (forChunk it) = some (((forOut it).map Spec.Item.render).flatten) := by
  cases it with
  | b i => simp [forChunk, chunkOut, forOut]
  | block k ws body => simp [forChunk, chunkOut, forOut]
  | pst ws body => simp [forChunk, chunkOut, forOut]
  | cond ws brs els => simp [forChunk, chunkOut, forOut]
  | loop ws p body =>
    cases p with
    | list raw =>
      have hl : LoopOK ws raw body := h.2
      have hne : (forItems raw).map strip ≠ [] := by
        have := splitAll_ne_nil COMMA (rstripChars COMMA (lstripChars COMMA (strip raw)))
        intro e
        exact this (List.map_eq_nil_iff.mp e)
      simp only [forChunk, chunkOut, forOut, Spec.ForParam.render]
      rw [blockParam_for ws raw hl.wsOK hl.rawOK, forExpand_list ws raw body hl,
        expandLoop_eq [] [] (.list raw) body _ (spec_forItems_list [] [] raw hl.csv hl.notnum) hne]
      simp only [render_b_items]
    | count raw =>
      have hl : CountOK ws raw body := h.2
      simp only [forChunk, chunkOut, forOut, Spec.ForParam.render]
      rw [blockParam_for ws raw hl.wsOK hl.rawOK, forExpand_count [] [] ws raw body hl]
      obtain ⟨bs, hbs⟩ := expandLoop_count_some [] [] ws raw body hl
      rw [hbs]
      simp only [Option.map_some, render_b_items]
    | userTag n d => exact absurd h.2 (by simp)

/-- **`do_for` over a whole file**: every FOR block over a literal list or a count is replaced, in place, by the
    lines of the specification's loop; everything else is passed through -/
theorem doFor_items (items : List Spec.Item) (h : ∀ it ∈ items, ForFileItemOK it) :
    doFor (Spec.renderFile items) = some (Spec.renderFile (items.flatMap forOut)) := by
  unfold doFor
  have hr : Spec.renderFile items = ((items.map forChunk).map Chunk.lines).flatten := by
    unfold Spec.renderFile
    rw [List.map_map]
    congr 1
    apply List.map_congr_left
    intro it _
    exact (forChunk_lines it).symm
  rw [hr, pairExpand_chunks]
  · rw [List.map_map]
    have : items.map (chunkOut forExpand ∘ forChunk) =
        (items.map (fun it => ((forOut it).map Spec.Item.render).flatten)).map some := by
      rw [List.map_map]
      apply List.map_congr_left
      intro it hit
      exact chunkOut_for it (h it hit)
    rw [this, concatOpt_all_some]
    unfold Spec.renderFile
    rw [flatten_flatMap_render]
  · intro c hc
    simp only [List.mem_map] at hc
    obtain ⟨it, hit, rfl⟩ := hc
    have e1 : cleanTag (T "<<<FOR_BEGIN>>>") = FORB := by decide
    have e2 : cleanTag (T "<<<FOR_END>>>") = FORE := by decide
    rw [e1, e2]
    exact (h it hit).1

end Engine
end KojenVerif
