import KojenVerif.Lemmas.EngineStr
/-
  `extractDefaultAndTag` on a line with exactly one tag: the tag and what follows the first
  delimiter inside it.
-/
namespace KojenVerif
namespace Engine
open Str

theorem isPrefixB_LLL_clean (c : Nat) (x : Str) (h : c ≠ 60) : isPrefixB LLL (c :: x) = false := by
  simp [LLL, isPrefixB]; intro e; exact absurd e.symm h

theorem isPrefixB_GGG_clean (c : Nat) (x : Str) (h : c ≠ 62) : isPrefixB GGG (c :: x) = false := by
  simp [GGG, isPrefixB]; intro e; exact absurd e.symm h

theorem edtScan_clean (s rest : Str) (i : Nat) (st en : List Nat) (h : Clean s) :
    edtScan (s ++ rest) i none false st en = edtScan rest (i + s.length) none false st en := by
  induction s generalizing i with
  | nil => simp
  | cons c s ih =>
    obtain ⟨h1, h2, hs⟩ := h.cons
    simp only [List.cons_append, edtScan, isPrefixB_LLL_clean c _ h1, isPrefixB_GGG_clean c _ h2]
    simp only [Bool.false_eq_true, if_false, Bool.false_and]
    rw [ih (i + 1) hs]
    simp [Nat.add_assoc, Nat.add_comm 1]

/-- after the characters of a clean string nothing is pending -/
theorem edtScan_clean_end (s : Str) (i : Nat) (st en : List Nat) (h : Clean s) :
    edtScan s i none false st en = (st, en) := by
  have := edtScan_clean s [] i st en h
  simp only [List.append_nil] at this
  rw [this]; rfl

/-- the head of `b ++ GGG ++ tail` is not '<' when `b` is clean -/
theorem third_not_lt (b tail : Str) (h : Clean b) : ∀ x, isPrefixB LLL (60 :: 60 :: (b ++ GGG ++ x)) = false := by
  intro x
  cases b with
  | nil => simp [LLL, GGG, isPrefixB]
  | cons c b =>
    have := (h.cons).1
    simp [LLL, isPrefixB]; exact fun e => absurd e.symm this

theorem edtScan_tag (b tail : Str) (i : Nat) (st en : List Nat) (hb : Clean b) (ht : Clean tail) :
    edtScan (LLL ++ b ++ GGG ++ tail) i none false st en = (st ++ [i], en ++ [i + 3 + b.length + 3]) := by
  -- the three '<'
  have e1 : LLL ++ b ++ GGG ++ tail = 60 :: 60 :: 60 :: (b ++ GGG ++ tail) := by simp [LLL]
  rw [e1]
  have p0 : isPrefixB LLL (60 :: 60 :: 60 :: (b ++ GGG ++ tail)) = true := by simp [LLL, isPrefixB]
  have g0 : ∀ x, isPrefixB GGG (60 :: x) = false := fun x => isPrefixB_GGG_clean 60 x (by decide)
  have p1 : isPrefixB LLL (60 :: 60 :: (b ++ GGG ++ tail)) = false := third_not_lt b tail hb tail
  have p2 : isPrefixB LLL (60 :: (b ++ GGG ++ tail)) = false := by
    cases b with
    | nil => simp [LLL, GGG, isPrefixB]
    | cons c b => simp [LLL, isPrefixB]; intro e; exact absurd e.symm (hb.cons).1
  rw [edtScan]
  simp only [p0, g0, if_true, Bool.false_and, Bool.false_eq_true, if_false]
  rw [edtScan]
  simp only [p1, g0, Bool.false_eq_true, if_false, Bool.false_and]
  rw [edtScan]
  simp only [p2, g0, Bool.false_eq_true, if_false, Bool.false_and]
  -- the body
  have e2 : b ++ GGG ++ tail = b ++ (GGG ++ tail) := by simp
  rw [e2, edtScan_clean b _ _ _ _ hb]
  -- the three '>'
  have e3 : GGG ++ tail = 62 :: 62 :: 62 :: tail := by simp [GGG]
  rw [e3]
  have q0 : isPrefixB GGG (62 :: 62 :: 62 :: tail) = true := by simp [GGG, isPrefixB]
  have l0 : ∀ x, isPrefixB LLL (62 :: x) = false := fun x => isPrefixB_LLL_clean 62 x (by decide)
  have q1 : isPrefixB GGG (62 :: 62 :: tail) = false := by
    cases tail with
    | nil => simp [GGG, isPrefixB]
    | cons c t => simp [GGG, isPrefixB]; intro e; exact absurd e.symm (ht.cons).2.1
  have q2 : isPrefixB GGG (62 :: tail) = false := by
    cases tail with
    | nil => simp [GGG, isPrefixB]
    | cons c t => simp [GGG, isPrefixB]; intro e; exact absurd e.symm (ht.cons).2.1
  rw [edtScan]
  simp only [q0, l0, Bool.false_eq_true, if_false, Bool.true_and, Bool.not_false, if_true]
  rw [edtScan]
  simp only [q1, l0, Bool.false_eq_true, if_false, Bool.false_and]
  rw [edtScan]
  simp only [q2, l0, Bool.false_eq_true, if_false, Bool.false_and]
  rw [edtScan_clean_end tail _ _ _ ht]

theorem slice_mid (a b c : Str) : slice (a ++ b ++ c) a.length (a.length + b.length) = b := by
  unfold slice
  simp

/-- **one tag on the line** -/
theorem extractDefaultAndTag_single (ws b tail delim : Str) (hw : Clean ws) (hb : Clean b) (ht : Clean tail) :
    extractDefaultAndTag (ws ++ LLL ++ b ++ GGG ++ tail) delim =
      (LLL ++ b ++ GGG, ((splitOnce delim b).2).getD []) := by
  unfold extractDefaultAndTag
  have e : ws ++ LLL ++ b ++ GGG ++ tail = ws ++ (LLL ++ b ++ GGG ++ tail) := by simp
  rw [e, edtScan_clean ws _ 0 [] [] hw, edtScan_tag b tail _ [] [] hb ht]
  simp only [List.nil_append, List.head?_cons, List.getLast?_singleton, Nat.zero_add]
  have o : slice (ws ++ (LLL ++ b ++ GGG ++ tail)) ws.length (ws.length + 3 + b.length + 3) = LLL ++ b ++ GGG := by
    have := slice_mid ws (LLL ++ b ++ GGG) tail
    simp only [List.append_assoc] at this ⊢
    have hl : (LLL ++ (b ++ GGG)).length = 3 + b.length + 3 := by simp [LLL, GGG]; omega
    rw [hl] at this
    have h2 : ws.length + (3 + b.length + 3) = ws.length + 3 + b.length + 3 := by omega
    rw [h2] at this
    exact this
  have i : slice (ws ++ (LLL ++ b ++ GGG ++ tail)) (ws.length + 3) (ws.length + 3 + b.length + 3 - 3) = b := by
    have := slice_mid (ws ++ LLL) b (GGG ++ tail)
    simp only [List.append_assoc] at this ⊢
    have hl : (ws ++ LLL).length = ws.length + 3 := by simp [LLL]
    rw [hl] at this
    have h2 : ws.length + 3 + b.length + 3 - 3 = ws.length + 3 + b.length := by omega
    rw [h2]
    exact this
  rw [o, i]

end Engine
end KojenVerif
