import KojenVerif.Model.DocCheck
import KojenVerif.Lemmas.Regen
namespace KojenVerif
open Str

theorem parseAux_render (ls : List Str) (st : Option (Str × List Str)) (acc D : List (Item Str))
    (h : parseAux ls st acc = some D) :
    render D = render acc.reverse ++
      (match st with
       | none => ls
       | some (o, b) => o :: (b.reverse ++ ls)) := by
  induction ls generalizing st acc with
  | nil =>
    cases st with
    | none => simp [parseAux] at h; subst h; simp
    | some p => simp [parseAux] at h
  | cons l ls ih =>
    cases st with
    | none =>
      simp only [parseAux] at h
      split at h
      · have := ih _ _ h
        simpa using this
      · have := ih _ _ h
        simp only [List.reverse_cons] at this
        rw [this]
        simp [render_append_text]
    | some p =>
      obtain ⟨o, b⟩ := p
      simp only [parseAux] at h
      split at h
      · have := ih _ _ h
        simp only [List.reverse_cons] at this
        rw [this]
        simp [render_append_block]
      · have := ih _ _ h
        simpa using this
where
  render_append_text {acc : List (Item Str)} {l : Str} :
      render (acc ++ [Item.text l]) = render acc ++ [l] := by
    induction acc with
    | nil => simp [render, Item.render]
    | cons a acc ih => simp [render, ih]
  render_append_block {acc : List (Item Str)} {o cl : Str} {b : List Str} :
      render (acc ++ [Item.block o cl b]) = render acc ++ o :: (b ++ [cl]) := by
    induction acc with
    | nil => simp [render, Item.render]
    | cons a acc ih => simp [render, ih]

theorem parseDoc_render (ls : List Str) (D : List (Item Str)) (h : parseDoc ls = some D) :
    render D = ls := by
  have := parseAux_render ls none [] D h
  simpa [render] using this

theorem freshDocB_sound (F : List (Item Str)) (h : freshDocB F = true) :
    FreshDoc strCfg expandTabs F := by
  simp only [freshDocB, Bool.and_eq_true, List.all_eq_true, decide_eq_true_eq] at h
  refine ⟨?_, h.2⟩
  intro it hit
  have := h.1 it hit
  cases it with
  | text l =>
    simp only [Item.freshOKB, Bool.not_eq_true'] at this
    simp only [Item.freshOK, strCfg]
    exact this
  | block o cl b =>
    simp only [Item.freshOKB, Bool.and_eq_true, List.isEmpty_iff, beq_iff_eq] at this
    obtain ⟨⟨⟨⟨⟨h1, h2⟩, h3⟩, h4⟩, h5⟩, h6⟩ := this
    simp only [Item.freshOK, strCfg]
    exact ⟨h1, h2, h3, h4, h5, h6⟩

/-- a file accepted by `wfFresh` is the rendering of a `FreshDoc` -/
theorem wfFresh_sound (ls : List Str) (h : wfFresh ls = true) :
    ∃ F, FreshDoc strCfg expandTabs F ∧ render F = ls := by
  unfold wfFresh at h
  split at h
  · rename_i F hp
    exact ⟨F, freshDocB_sound F h, parseDoc_render ls F hp⟩
  · cases h

end KojenVerif
