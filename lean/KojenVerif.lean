import KojenVerif.Basic.Str
import KojenVerif.Basic.Path
import KojenVerif.Model.Preserv
import KojenVerif.Model.Pipeline
import KojenVerif.Lemmas.Preserv
import KojenVerif.Generated.Facts
import KojenVerif.Generated.Templates
