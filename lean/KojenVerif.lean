import KojenVerif.Basic.Str
import KojenVerif.Model.Preserv
import KojenVerif.Lemmas.Preserv
